(** Network area, C13: outside the recorded findings the SDK router is also COMPLETE with
    respect to the reference router: what the reference router forwards or delivers, the SDK
    router forwards or delivers, with the same packet. *)
From Coq Require Import Lia ZifyBool ZifyNat ZifyN.
From Sci Require Import Network.Model Network.Spec Network.Proofs Network.Proofs_Sound.
Local Open Scope N_scope.
Arguments N.add : simpl never. Arguments N.sub : simpl never. Arguments N.mul : simpl never.
Arguments N.div : simpl never. Arguments N.modulo : simpl never. Arguments N.eqb : simpl never.
Arguments N.ltb : simpl never. Arguments N.leb : simpl never. Arguments N.min : simpl never.
Arguments Nat.eqb : simpl never. Arguments Nat.ltb : simpl never. Arguments Nat.leb : simpl never.

(** every segment has at least two hop fields (the SDK refuses single-hop segments) *)
Definition lens_two (lens : list nat) : Prop := Forall (fun l => (2 <= l)%nat) lens.

Lemma lens_two_ok lens : lens_two lens -> lens_ok lens.
Proof. unfold lens_two, lens_ok. apply Forall_impl. intros; lia. Qed.

Lemma seg_index_aux_total lens : forall agg idx h,
  (agg <= h)%nat -> (h < agg + sum_nat lens)%nat -> exists s st en, seg_index_aux lens agg idx h = Some (s, st, en).
Proof.
  induction lens as [|l r IH]; intros agg idx h H1 H2; unfold sum_nat in *; cbn [fold_right] in *; [lia|].
  rewrite seg_index_aux_cons. destruct (h <? agg + l)%nat eqn:E; [eauto|].
  apply Nat.ltb_ge in E. apply IH; lia.
Qed.

Lemma seg_of_lt lens : forall h s, seg_of lens h = Some s -> (h < sum_nat lens)%nat.
Proof.
  induction lens as [|l r IH]; intros h s H; cbn [seg_of] in H; [discriminate|].
  unfold sum_nat in *. cbn [fold_right].
  destruct (h <? l)%nat eqn:E; [apply Nat.ltb_lt in E; lia|].
  apply Nat.ltb_ge in E. destruct (seg_of r (h - l)) eqn:E2; [|discriminate].
  apply IH in E2. lia.
Qed.

(** [seg_index] from [seg_of] facts *)
Lemma seg_index_of lens h s : lens_ok lens -> seg_of lens h = Some s ->
  exists st en, seg_index lens h = Some (s, st, en)
    /\ (en = false <-> seg_of lens (S h) = Some s).
Proof.
  intros Hok Hs. pose proof (seg_of_lt lens h s Hs) as Hlt.
  destruct (seg_index_aux_total lens 0 0 h (Nat.le_0_l _) ltac:(cbn; lia)) as (s' & st & en & E).
  fold (seg_index lens h) in E.
  destruct (seg_index_spec lens h s' st en Hok E) as (A & B & C & D).
  rewrite Hs in A. inversion A; subst s'. exists st, en. split; [exact E|].
  split.
  - intros ->. apply C. reflexivity.
  - intros Hn. destruct en; [|reflexivity]. rewrite (D eq_refl) in Hn.
    destruct (S h <? sum_nat lens)%nat; [inversion Hn; lia|discriminate].
Qed.

Lemma seg_index_aux_two lens : lens_two lens -> forall agg idx h s st en,
  seg_index_aux lens agg idx h = Some (s, st, en) -> st && en = false.
Proof.
  intros H2. induction H2 as [|l r Hl Hr IH]; intros agg idx h s st en H; [discriminate|].
  rewrite seg_index_aux_cons in H. destruct (h <? agg + l)%nat eqn:E.
  - injection H as _ <- <-. destruct (h =? agg)%nat eqn:E1; [|reflexivity].
    apply Nat.eqb_eq in E1. subst h. cbn [andb]. apply Nat.eqb_neq. lia.
  - eapply IH. exact H.
Qed.
Lemma seg_index_two lens h s st en : lens_two lens -> seg_index lens h = Some (s, st, en) -> st && en = false.
Proof. intros H. apply (seg_index_aux_two lens H 0%nat 0%nat). Qed.

(** the first hop of a segment of at least two hops is followed by a hop of the same segment *)
Lemma seg_of_second lens : lens_two lens -> forall h s,
  seg_of lens h = Some s -> seg_of lens (S h) = Some (S s) ->
  seg_of lens (S (S h)) = Some (S s).
Proof.
  intros H2. induction H2 as [|l r Hl Hr IH]; intros h s H0 H1; [discriminate|].
  cbn [seg_of] in *.
  destruct (h <? l)%nat eqn:E0.
  - inversion H0; subst s. destruct (S h <? l)%nat eqn:E1; [discriminate|].
    apply Nat.ltb_lt in E0. apply Nat.ltb_ge in E1.
    assert ((S (S h) <? l)%nat = false) as -> by (apply Nat.ltb_ge; lia).
    replace (S h - l)%nat with 0%nat in H1 by lia. replace (S (S h) - l)%nat with 1%nat by lia.
    destruct r as [|l2 r2]; [discriminate|]. inversion Hr as [|? ? Hl2 _]; subst.
    cbn [seg_of] in *. assert ((1 <? l2)%nat = true) as -> by (apply Nat.ltb_lt; lia). reflexivity.
  - apply Nat.ltb_ge in E0.
    assert ((S h <? l)%nat = false) as E1 by (apply Nat.ltb_ge; lia). rewrite E1 in H1.
    assert ((S (S h) <? l)%nat = false) as -> by (apply Nat.ltb_ge; lia).
    destruct (seg_of r (h - l)) as [s0|] eqn:Ea; [|discriminate]. inversion H0; subst s.
    destruct (seg_of r (S h - l)) as [s1|] eqn:Eb; [|discriminate]. inversion H1; subst s1.
    replace (S h - l)%nat with (S (h - l)) in Eb by lia.
    replace (S (S h) - l)%nat with (S (S (h - l))) by lia.
    rewrite (IH (h - l)%nat s0 Ea Eb). reflexivity.
Qed.

(** consecutive hops are in the same or in consecutive segments *)
Lemma seg_of_next lens : lens_ok lens -> forall h s s',
  seg_of lens h = Some s -> seg_of lens (S h) = Some s' -> s' = s \/ s' = S s.
Proof.
  intros Hok h s s' H0 H1.
  destruct (seg_index_of lens h s Hok H0) as (st & en & E & _).
  destruct (seg_index_spec lens h s st en Hok E) as (_ & _ & C & D).
  destruct en.
  - rewrite (D eq_refl) in H1. destruct (S h <? sum_nat lens)%nat; inversion H1; auto.
  - destruct (C eq_refl) as (C1 & _). rewrite C1 in H1. inversion H1; auto.
Qed.

Section C.
Context {key : Type}.
Variable mac : key -> N -> N -> N -> N -> N -> N.

Lemma seg_upd_as_ref i inf h :
  (if negb (i_cons inf) && negb (i =? 0) && true
   then set_segid inf (beta_step (i_segid inf) (h_mac h)) else inf) = seg_upd i inf h.
Proof. unfold seg_upd. destruct (i_cons inf), (i =? 0); reflexivity. Qed.

(** whatever the reference router forwards or delivers is a good step *)
Lemma ref_to_good t ia K now i pk :
  wf_topo t = true -> lens_two (p_lens (k_path pk)) ->
  sum_nat (p_lens (k_path pk)) = length (p_hops (k_path pk)) ->
  uses_peering (k_path pk) = false ->
  (forall e pk', ref_step mac t ia K now i pk = RForward e pk' ->
                 good_step mac t ia K now i pk (AFwd e) pk')
  /\ (forall pk', ref_step mac t ia K now i pk = RDeliver pk' ->
                  good_step mac t ia K now i pk ALocal pk').
Proof.
  intros W L2 Hsum Sp. destruct pk as [dst p]. cbn [k_path] in *.
  pose proof (lens_two_ok _ L2) as Hok. unfold uses_peering in Sp.
  unfold ref_step. cbn [k_path k_dst]. cbv zeta.
  destruct (nth_error (p_hops p) (p_ch p)) as [h|] eqn:Eh; [|split; intros; discriminate].
  destruct (seg_of (p_lens p) (p_ch p)) as [s|] eqn:So; [|split; intros; discriminate].
  destruct (s =? p_ci p)%nat eqn:Eci; cbn [negb]; [|split; intros; discriminate].
  apply Nat.eqb_eq in Eci. subst s.
  destruct (nth_error (p_infos p) (p_ci p)) as [inf|] eqn:Ei; [|split; intros; discriminate].
  pose proof (no_peer_flag _ _ _ Sp Ei) as Pf. rewrite Pf. cbn [andb negb].
  destruct (ref_time_ok now h inf) eqn:Vt; cbn [negb]; [|split; intros; discriminate].
  destruct (negb (i =? 0) && negb (hop_ingress h inf =? i)) eqn:Ring; [split; intros; discriminate|].
  rewrite seg_upd_as_ref.
  destruct (hop_mac_ok mac K h (seg_upd i inf h)) eqn:Vm; cbn [negb]; [|split; intros; discriminate].
  fold (in_alert h inf).
  destruct (negb (i =? 0) && in_alert h inf) eqn:Hal; [split; intros; discriminate|].
  assert (Hlt : (p_ch p < length (p_hops p))%nat) by (apply nth_error_Some; congruence).
  destruct (S (p_ch p) =? length (p_hops p))%nat eqn:Elast.
  - (* last hop *)
    apply Nat.eqb_eq in Elast.
    split; [intros e pk'; destruct (dst =? ia); discriminate|].
    intros pk'. destruct (dst =? ia) eqn:Ed; [|discriminate]. intros H; inversion H; subst pk'; clear H.
    apply N.eqb_eq in Ed. apply (GDeliver mac t ia K now i dst p h inf); auto.
  - apply Nat.eqb_neq in Elast.
    destruct (seg_of (p_lens p) (S (p_ch p))) as [s'|] eqn:Sn.
    2:{ (* malformed: no segment for the next hop *)
        cbn [andb]. destruct (iface_state t ia (hop_egress h (seg_upd i inf h))) as [[lo up]|];
          [|split; intros; discriminate].
        cbn [negb]. destruct (if i_cons (seg_upd i inf h) then h_aeg h else h_ain h);
          [split; intros; discriminate|].
        destruct up; cbn [negb]; [rewrite Sn|]; split; intros; discriminate. }
    destruct (s' =? p_ci p)%nat eqn:Es'; cbn [negb andb].
    + (* same segment *)
      apply Nat.eqb_eq in Es'. subst s'.
      assert (Heg : hop_egress h (seg_upd i inf h) = hop_egress h inf)
        by (unfold seg_upd; destruct (negb (i =? 0) && negb (i_cons inf)); reflexivity).
      assert (Hc : i_cons (seg_upd i inf h) = i_cons inf)
        by (unfold seg_upd; destruct (negb (i =? 0) && negb (i_cons inf)); reflexivity).
      rewrite Heg, Hc. fold (eg_alert h inf).
      destruct (iface_state t ia (hop_egress h inf)) as [[lo up]|] eqn:Hif; [|split; intros; discriminate].
      cbn [negb]. destruct (eg_alert h inf) eqn:Hea; [split; intros; discriminate|].
      destruct up; cbn [negb]; [|split; intros; discriminate].
      rewrite Sn. split; [|intros; discriminate].
      intros e pk' H; inversion H; subst e pk'; clear H.
      replace (if i_cons inf && true then set_segid (seg_upd i inf h) (beta_step (i_segid (seg_upd i inf h)) (h_mac h)) else seg_upd i inf h)
        with (seg_chain (seg_upd i inf h) h)
        by (unfold seg_chain; rewrite Hc; destruct (i_cons inf); reflexivity).
      apply (GPlain mac t ia K now i dst p h inf lo); auto. lia.
    + (* crossover *)
      apply Nat.eqb_neq in Es'.
      assert (s' = S (p_ci p)) by (destruct (seg_of_next _ Hok _ _ _ So Sn); [congruence|assumption]).
      subst s'.
      destruct (nth_error (p_hops p) (S (p_ch p))) as [nh|] eqn:Enh; [|split; intros; discriminate].
      rewrite nth_error_upd_neq by lia.
      destruct (nth_error (p_infos p) (S (p_ci p))) as [ninf|] eqn:Eni; [|split; intros; discriminate].
      fold (eg_alert h inf) (in_alert nh ninf).
      destruct (eg_alert h inf) eqn:Hea; [split; intros; discriminate|].
      destruct (in_alert nh ninf) eqn:Hina; [split; intros; discriminate|]. cbn [orb].
      destruct (ref_time_ok now nh ninf) eqn:Vt2; cbn [negb]; [|split; intros; discriminate].
      destruct (hop_mac_ok mac K nh ninf) eqn:Vm2; cbn [negb]; [|split; intros; discriminate].
      destruct (iface_state t ia (hop_egress nh ninf)) as [[lo up]|] eqn:Hlo; [|split; intros; discriminate].
      destruct (iface_state t ia i) as [[li upi]|] eqn:Hli; [|split; intros; discriminate].
      destruct (ref_xover_ok li lo) eqn:Hx; cbn [negb]; [|split; intros; discriminate].
      fold (eg_alert nh ninf).
      destruct (eg_alert nh ninf) eqn:Hea2; [split; intros; discriminate|].
      destruct up; cbn [negb]; [|split; intros; discriminate].
      pose proof (seg_of_second _ L2 _ _ So Sn) as Sn2. rewrite Sn2.
      split; [|intros; discriminate].
      intros e pk' H; inversion H; subst e pk'; clear H.
      pose proof (iface_nonzero t ia i _ W Hli) as E0.
      rewrite E0 in Ring, Hal. cbn [negb andb] in Ring, Hal. apply negb_false_iff in Ring.
      replace (if i_cons ninf && true then set_segid ninf (beta_step (i_segid ninf) (h_mac nh)) else ninf)
        with (seg_chain ninf nh) by (unfold seg_chain; destruct (i_cons ninf); reflexivity).
      pose proof (no_peer_flag _ _ _ Sp Eni) as Pf2.
      apply (GXover mac t ia K now i dst p h inf nh ninf li upi lo); auto.
      assert (S (p_ch p) < length (p_hops p))%nat; [|assumption]. lia.
Qed.
End C.

Lemma xover_tables_rev a b : ref_xover_ok a b = true -> sdk_seg_change_ok a b = true.
Proof. destruct a, b; vm_compute; intros; congruence. Qed.

Section C2.
Context {key : Type}.
Variable mac : key -> N -> N -> N -> N -> N -> N.

Lemma validate_ingress_intro ac i now K h inf :
  (ac = true \/ (negb (i =? 0) && negb (hop_ingress h inf =? i)) = false) ->
  ref_time_ok now h inf = true -> hop_mac_ok mac K h inf = true ->
  sdk_validate_hop mac true ac i now K h inf = None.
Proof.
  intros Hi Ht Hm. unfold sdk_validate_hop. cbn [andb negb].
  pose proof (time_ok_iff now h inf) as T. rewrite Ht in T. cbn [negb] in T.
  apply orb_false_iff in T. destruct T as (T1 & T2). rewrite T1, T2, Hm. cbn [negb].
  destruct Hi as [->|Hi]; [reflexivity|].
  destruct ac; [reflexivity|]. cbn [negb andb]. rewrite Hi. reflexivity.
Qed.

Lemma validate_egress_intro ac e now K h inf :
  hop_egress h inf = e -> ref_time_ok now h inf = true -> hop_mac_ok mac K h inf = true ->
  sdk_validate_hop mac false ac e now K h inf = None.
Proof.
  intros He Ht Hm. unfold sdk_validate_hop. cbn [andb negb].
  pose proof (time_ok_iff now h inf) as T. rewrite Ht in T. cbn [negb] in T.
  apply orb_false_iff in T. destruct T as (T1 & T2). rewrite T1, T2, Hm, He, N.eqb_refl. reflexivity.
Qed.

Lemma seg_of_none_at_end lens h : h = sum_nat lens -> seg_of lens h = None.
Proof.
  intros ->. destruct (seg_of lens (sum_nat lens)) eqn:E; [|reflexivity].
  apply seg_of_lt in E. lia.
Qed.

(** the SDK router performs every good step (segments of at least two hops) *)
Lemma good_to_sdk t ia K now i pk a pk' :
  wf_topo t = true -> lens_two (p_lens (k_path pk)) ->
  sum_nat (p_lens (k_path pk)) = length (p_hops (k_path pk)) ->
  (length (p_hops (k_path pk)) <= 64)%nat ->
  good_step mac t ia K now i pk a pk' ->
  sdk_route mac t ia K now i pk = (a, pk').
Proof.
  intros W L2 Hsum H64 G. pose proof (lens_two_ok _ L2) as Hok.
  destruct G as
    [dst p h inf Eh Ei So Pf Hl Vt Ring Vm Hal Hd
    |dst p h inf ty Eh Ei So Pf Sn Hlt Vt Ring Vm Hal Hif Hea
    |dst p h inf nh ninf lin upi lout Eh Ei So Pf Sn Hlt Sn2 Enh Eni Vt E0 Eing Vm Hia Hea Hina Vt2 Vm2 Hli Hlo Hx Hea2];
    cbn [k_path] in *.
  - (* deliver *)
    destruct (seg_index_of _ _ _ Hok So) as (st & en & Es & Hen).
    assert (en = true).
    { destruct en; [reflexivity|]. destruct Hen as (Hen & _). specialize (Hen eq_refl).
      rewrite seg_of_none_at_end in Hen by lia. discriminate. }
    subst en. pose proof (seg_index_two _ _ _ _ _ L2 Es) as Hst.
    unfold sdk_route, sdk_handle, sdk_advance_ingress. cbn [k_path k_dst].
    rewrite Es, Hst, Nat.eqb_refl, Eh, Ei. cbn [negb].
    fold (seg_upd i inf h) (in_alert h inf).
    assert ((length (p_hops p) <=? p_ch p + 1)%nat = true) as -> by (apply Nat.leb_le; lia).
    assert (Tinf : ref_time_ok now h (seg_upd i inf h) = ref_time_ok now h inf)
      by (unfold seg_upd; destruct (negb (i =? 0) && negb (i_cons inf)); reflexivity).
    assert (Iinf : hop_ingress h (seg_upd i inf h) = hop_ingress h inf)
      by (unfold seg_upd; destruct (negb (i =? 0) && negb (i_cons inf)); reflexivity).
    rewrite (validate_ingress_intro false i now K h (seg_upd i inf h)); [|right; rewrite Iinf; exact Ring|rewrite Tinf; exact Vt|exact Vm].
    assert (Hdec : (in_alert h inf && negb (i =? 0) && (hop_ingress h inf =? i)) = false).
    { destruct (in_alert h inf); [|reflexivity]. rewrite andb_true_r in Hal. rewrite Hal. reflexivity. }
    rewrite Hdec. subst dst. rewrite N.eqb_refl. rewrite Hal. rewrite (upd_same _ _ _ Eh). reflexivity.
  - (* plain forward *)
    destruct (seg_index_of _ _ _ Hok So) as (st & en & Es & Hen).
    assert (en = false) by (apply Hen; exact Sn). subst en.
    unfold sdk_route, sdk_handle, sdk_advance_ingress. cbn [k_path k_dst].
    rewrite Es, andb_false_r, Nat.eqb_refl, Eh, Ei. cbn [negb].
    fold (seg_upd i inf h) (in_alert h inf).
    assert ((length (p_hops p) <=? p_ch p + 1)%nat = false) as Ef by (apply Nat.leb_gt; lia).
    rewrite Ef.
    assert (Tinf : ref_time_ok now h (seg_upd i inf h) = ref_time_ok now h inf)
      by (unfold seg_upd; destruct (negb (i =? 0) && negb (i_cons inf)); reflexivity).
    assert (Iinf : hop_ingress h (seg_upd i inf h) = hop_ingress h inf)
      by (unfold seg_upd; destruct (negb (i =? 0) && negb (i_cons inf)); reflexivity).
    assert (Heg : hop_egress h (seg_upd i inf h) = hop_egress h inf)
      by (unfold seg_upd; destruct (negb (i =? 0) && negb (i_cons inf)); reflexivity).
    assert (Cinf : i_cons (seg_upd i inf h) = i_cons inf)
      by (unfold seg_upd; destruct (negb (i =? 0) && negb (i_cons inf)); reflexivity).
    rewrite (validate_ingress_intro false i now K h (seg_upd i inf h)); [|right; rewrite Iinf; exact Ring|rewrite Tinf; exact Vt|exact Vm].
    assert (Hdec : (in_alert h inf && negb (i =? 0) && (hop_ingress h inf =? i)) = false).
    { destruct (in_alert h inf); [|reflexivity]. rewrite andb_true_r in Hal. rewrite Hal. reflexivity. }
    rewrite Hdec, Hal. cbn [p_infos p_ci p_ch p_hops p_lens].
    rewrite (nth_error_upd_eq (p_infos p) (p_ci p) (seg_upd i inf h)) by (apply nth_error_Some; congruence).
    rewrite Heg, Hif. cbn [negb].
    unfold sdk_advance_egress. cbn [p_infos p_ci p_ch p_hops p_lens].
    rewrite Es, Nat.eqb_refl. cbn [negb]. rewrite upd_length, (upd_same _ _ _ Eh), Eh.
    rewrite (nth_error_upd_eq (p_infos p) (p_ci p) (seg_upd i inf h)) by (apply nth_error_Some; congruence).
    rewrite Ef.
    assert ((63 <? S (p_ch p))%nat = false) as -> by (apply Nat.ltb_ge; lia).
    rewrite (validate_egress_intro false (hop_egress h inf) now K h (seg_upd i inf h)); [|exact Heg|rewrite Tinf; exact Vt|exact Vm].
    rewrite Cinf. fold (eg_alert h inf). rewrite Hea. cbn [andb].
    rewrite (upd_same _ _ _ Eh).
    replace (if i_cons inf then set_segid (seg_upd i inf h) (beta_step (i_segid (seg_upd i inf h)) (h_mac h)) else seg_upd i inf h)
      with (seg_chain (seg_upd i inf h) h) by (unfold seg_chain; rewrite Cinf; reflexivity).
    assert (Heg2 : hop_egress h (seg_chain (seg_upd i inf h) h) = hop_egress h inf).
    { unfold seg_chain. rewrite Cinf. destruct (i_cons inf) eqn:Ec; unfold hop_egress; cbn; rewrite ?Cinf, ?Ec; try reflexivity. }
    rewrite Heg2. reflexivity.
  - (* crossover *)
    destruct (seg_index_of _ _ _ Hok So) as (st & en & Es & Hen).
    assert (en = true).
    { destruct en; [reflexivity|]. destruct Hen as (Hen & _). specialize (Hen eq_refl). rewrite Sn in Hen. inversion Hen. lia. }
    subst en. pose proof (seg_index_two _ _ _ _ _ L2 Es) as Hst.
    destruct (seg_index_of _ _ _ Hok Sn) as (st2 & en2 & Es2 & Hen2).
    assert (en2 = false) by (apply Hen2; exact Sn2). subst en2.
    pose proof (seg_of_lt _ _ _ Sn2) as Hlt2. rewrite Hsum in Hlt2.
    unfold sdk_route, sdk_handle, sdk_advance_ingress. cbn [k_path k_dst].
    rewrite Es, Hst, Nat.eqb_refl, Eh, Ei. cbn [negb].
    fold (seg_upd i inf h) (in_alert h inf).
    assert ((length (p_hops p) <=? p_ch p + 1)%nat = false) as Ef by (apply Nat.leb_gt; lia).
    rewrite Ef. assert ((63 <? S (p_ch p))%nat = false) as -> by (apply Nat.ltb_ge; lia).
    rewrite Enh, Eni. rewrite E0. cbn [negb andb]. rewrite Hia.
    assert (Tinf : ref_time_ok now h (seg_upd i inf h) = ref_time_ok now h inf)
      by (unfold seg_upd; destruct (negb (i =? 0) && negb (i_cons inf)); reflexivity).
    assert (Iinf : hop_ingress h (seg_upd i inf h) = hop_ingress h inf)
      by (unfold seg_upd; destruct (negb (i =? 0) && negb (i_cons inf)); reflexivity).
    assert (Cinf : i_cons (seg_upd i inf h) = i_cons inf)
      by (unfold seg_upd; destruct (negb (i =? 0) && negb (i_cons inf)); reflexivity).
    rewrite (validate_ingress_intro false i now K h (seg_upd i inf h));
      [|right; rewrite Iinf, E0, Eing; reflexivity|rewrite Tinf; exact Vt|exact Vm].
    cbn [or_else].
    unfold sdk_validate_seg_change. cbv zeta. rewrite Cinf. fold (eg_alert h inf) (in_alert nh ninf).
    rewrite Hea, Hina, Iinf. apply N.eqb_eq in Eing. rewrite Eing, Hli.
    rewrite Hlo.
    rewrite (xover_tables_rev _ _ Hx).
    cbn [or_else].
    rewrite (validate_ingress_intro true i now K nh ninf); [|left; reflexivity|exact Vt2|exact Vm2].
    cbn [andb]. cbn [p_infos p_ci p_ch p_hops p_lens].
    rewrite (nth_error_upd_neq (p_infos p) (p_ci p) (S (p_ci p))) by lia. rewrite Eni. cbn [negb].
    unfold sdk_advance_egress. cbn [p_infos p_ci p_ch p_hops p_lens].
    rewrite Es2, Nat.eqb_refl. cbn [negb]. rewrite upd_length, (upd_same _ _ _ Eh), Enh.
    rewrite (nth_error_upd_neq (p_infos p) (p_ci p) (S (p_ci p))) by lia. rewrite Eni.
    assert ((length (p_hops p) <=? S (p_ch p) + 1)%nat = false) as -> by (apply Nat.leb_gt; lia).
    assert ((63 <? S (S (p_ch p)))%nat = false) as -> by (apply Nat.ltb_ge; lia).
    rewrite (validate_egress_intro false (hop_egress nh ninf) now K nh ninf); [|reflexivity|exact Vt2|exact Vm2].
    fold (eg_alert nh ninf). rewrite Hea2. cbn [andb].
    rewrite (upd_same _ _ _ Enh).
    fold (seg_chain ninf nh).
    assert (Heg2 : hop_egress nh (seg_chain ninf nh) = hop_egress nh ninf).
    { unfold seg_chain. destruct (i_cons ninf) eqn:Ec; unfold hop_egress; cbn; rewrite ?Ec; reflexivity. }
    rewrite Heg2. reflexivity.
Qed.

(** stepwise completeness *)
Lemma sdk_step_complete t ia K now i pk :
  wf_topo t = true -> lens_two (p_lens (k_path pk)) ->
  sum_nat (p_lens (k_path pk)) = length (p_hops (k_path pk)) ->
  (length (p_hops (k_path pk)) <= 64)%nat ->
  uses_peering (k_path pk) = false ->
  (forall e pk', ref_step mac t ia K now i pk = RForward e pk' ->
                 sdk_route mac t ia K now i pk = (AFwd e, pk'))
  /\ (forall pk', ref_step mac t ia K now i pk = RDeliver pk' ->
                  sdk_route mac t ia K now i pk = (ALocal, pk')).
Proof.
  intros W L2 Hs H64 Sp. destruct (ref_to_good mac t ia K now i pk W L2 Hs Sp) as (A & B). split.
  - intros e pk' H. apply good_to_sdk; auto.
  - intros pk' H. apply good_to_sdk; auto.
Qed.
End C2.

(** * run level: what the reference network delivers, the simulator delivers *)
Section C3.
Context {key : Type}.
Variable mac : key -> N -> N -> N -> N -> N -> N.

Lemma existsb_peer_upd l k x :
  existsb i_peer l = false -> i_peer x = false -> existsb i_peer (upd l k x) = false.
Proof.
  revert k. induction l as [|a l IH]; intros k H Hx; [rewrite upd_nil; reflexivity|].
  cbn [existsb] in H. apply orb_false_iff in H. destruct H as (H1 & H2).
  destruct k; [cbn; rewrite Hx; exact H2|]. rewrite upd_cons_S. cbn [existsb]. rewrite H1. apply IH; assumption.
Qed.

Lemma seg_upd_peer i inf h : i_peer (seg_upd i inf h) = i_peer inf.
Proof. unfold seg_upd. destruct (negb (i =? 0) && negb (i_cons inf)); reflexivity. Qed.
Lemma seg_chain_peer inf h : i_peer (seg_chain inf h) = i_peer inf.
Proof. unfold seg_chain. destruct (i_cons inf); reflexivity. Qed.

(** a good forwarding step keeps the path's shape and introduces no PEERING flag *)
Lemma good_step_preserves t ia K now i pk e pk' :
  good_step mac t ia K now i pk (AFwd e) pk' ->
  uses_peering (k_path pk) = false ->
  p_lens (k_path pk') = p_lens (k_path pk) /\ p_hops (k_path pk') = p_hops (k_path pk)
  /\ uses_peering (k_path pk') = false.
Proof.
  intros G Sp. unfold uses_peering in *.
  inversion G; subst; cbn [k_path p_lens p_hops p_infos] in *; refine (conj eq_refl (conj eq_refl _)).
  - apply existsb_peer_upd; [apply existsb_peer_upd; [exact Sp|]|];
      rewrite ?seg_chain_peer, ?seg_upd_peer; assumption.
  - apply existsb_peer_upd; [apply existsb_peer_upd; [exact Sp|]|];
      rewrite ?seg_chain_peer, ?seg_upd_peer; try assumption.
    eapply no_peer_flag; eauto.
Qed.

Lemma ref_sim_complete fuel t now : wf_topo t = true ->
  forall ia i pk rtr x rpk,
  lens_two (p_lens (k_path pk)) -> sum_nat (p_lens (k_path pk)) = length (p_hops (k_path pk)) ->
  (length (p_hops (k_path pk)) <= 64)%nat ->
  uses_peering (k_path pk) = false ->
  ref_sim mac fuel t now ia i pk = (rtr, RDelivered x, rpk) ->
  exists tr, sdk_sim mac fuel t now ia i pk = (tr, EndVerdict, rpk)
             /\ fwd_of_steps tr = rtr
             /\ exists pre il, tr = pre ++ [mkStep x il ALocal].
Proof.
  intros W. induction fuel as [|f IH]; intros ia i pk rtr x rpk L2 Hs H64 Sp R; cbn [ref_sim sdk_sim] in *.
  - inversion R.
  - destruct (find_as t ia) as [a|] eqn:Ea; [|inversion R].
    destruct (sdk_step_complete mac t ia (a_key a) now i pk W L2 Hs H64 Sp) as (CF & CL).
    destruct (ref_to_good mac t ia (a_key a) now i pk W L2 Hs Sp) as (GF & _).
    destruct (ref_step mac t ia (a_key a) now i pk) as [eg pk1|pk1| |why] eqn:Er; try (inversion R; fail).
    + (* forward *)
      rewrite (CF _ _ eq_refl).
      destruct (good_step_preserves _ _ _ _ _ _ _ _ (GF _ _ eq_refl) Sp) as (P1 & P2 & P3).
      destruct (scion_link t ia eg) as [l|]; [|inversion R].
      destruct (get_peer l ia) as [[ia' if']|]; [|inversion R].
      destruct (ref_sim mac f t now ia' if' pk1) as [[rtr1 rend1] rpk1] eqn:R1.
      inversion R; subst rtr rend1 rpk; clear R.
      assert (L2' : lens_two (p_lens (k_path pk1))) by (rewrite P1; exact L2).
      assert (Hs' : sum_nat (p_lens (k_path pk1)) = length (p_hops (k_path pk1))) by (rewrite P1, P2; exact Hs).
      assert (H64' : (length (p_hops (k_path pk1)) <= 64)%nat) by (rewrite P2; exact H64).
      destruct (IH ia' if' pk1 rtr1 x rpk1 L2' Hs' H64' P3 R1) as (tr1 & S1 & F1 & pre & il & Et).
      (* the next AS exists: the reference run continued there and delivered *)
      assert (Hfa : exists a', find_as t ia' = Some a').
      { destruct f; cbn [ref_sim] in R1; [inversion R1|]. destruct (find_as t ia'); [eauto|inversion R1]. }
      destruct Hfa as (a' & Hfa). rewrite Hfa, S1.
      exists (mkStep ia i (AFwd eg) :: tr1). refine (conj eq_refl (conj _ _)).
      * unfold fwd_of_steps in *. cbn [flat_map s_act s_ia s_if app]. rewrite F1. reflexivity.
      * exists (mkStep ia i (AFwd eg) :: pre), il. rewrite Et. reflexivity.
    + (* deliver *)
      rewrite (CL _ eq_refl). inversion R; subst; clear R.
      exists [mkStep x i ALocal]. refine (conj eq_refl (conj eq_refl _)). exists [], i. reflexivity.
Qed.
End C3.

(** * a global sufficient condition for [run_scope] *)
Section C4.
Context {key : Type}.
Variable mac : key -> N -> N -> N -> N -> N -> N.

Lemma iface_not_peer (t : topology key) ia e ty up :
  no_peer_links t = true -> iface_state t ia e = Some (ty, up) -> rlt_eqb ty ToPeer = false.
Proof.
  unfold no_peer_links, iface_state, scion_link. intros NP H.
  destruct (find _ (t_links t)) as [l|] eqn:F; [|discriminate].
  apply find_some in F. destruct F as (Hin & _).
  rewrite forallb_forall in NP. specialize (NP l Hin).
  unfold get_link_type in H.
  destruct (l_a l =? ia); [|destruct (l_b l =? ia); [|discriminate]];
    inversion H; subst; destruct (l_ty l); try discriminate; vm_compute; reflexivity.
Qed.

Lemma step_scope_global (t : topology key) ia i p :
  no_peer_links t = true -> uses_peering p = false -> start_scope i p = true ->
  step_scope t ia i p = true.
Proof.
  intros NP Sp St. unfold step_scope. rewrite Sp. cbn [negb andb].
  unfold start_scope in St.
  destruct (seg_index (p_lens p) (p_ch p)) as [[[seg st] en]|]; [|reflexivity].
  destruct en; [|reflexivity].
  destruct (length (p_hops p) <=? p_ch p + 1)%nat; [reflexivity|].
  rewrite orb_false_r in St. rewrite St. cbn [andb].
  destruct (nth_error (p_hops p) (S (p_ch p))); [|reflexivity].
  destruct (nth_error (p_infos p) (S seg)); [|reflexivity].
  destruct (iface_state t ia i) as [[a ua]|] eqn:Ea; [|reflexivity].
  destruct (iface_state t ia (hop_egress h i0)) as [[b ub]|] eqn:Eb; [|reflexivity].
  unfold involves_peer. rewrite (iface_not_peer t ia i a ua NP Ea), (iface_not_peer t ia _ b ub NP Eb). reflexivity.
Qed.

Lemma run_scope_global fuel (t : topology key) now : wf_topo t = true -> no_peer_links t = true ->
  forall ia i pk,
  path_ok (k_path pk) -> uses_peering (k_path pk) = false -> start_scope i (k_path pk) = true ->
  run_scope mac fuel t now ia i pk = true.
Proof.
  intros W NP. induction fuel as [|f IH]; intros ia i pk P Sp St; [reflexivity|].
  cbn [run_scope]. pose proof (step_scope_global t ia i (k_path pk) NP Sp St) as Sc. rewrite Sc. cbn [andb].
  destruct (find_as t ia) as [a|]; [|reflexivity].
  destruct (sdk_route mac t ia (a_key a) now i pk) as [act pk1] eqn:Er.
  destruct act; try reflexivity.
  destruct (scion_link t ia eg) as [l|] eqn:El; [|reflexivity].
  destruct (get_peer l ia) as [[ia' if']|] eqn:Ep; [|reflexivity].
  pose proof (sdk_to_good mac t ia (a_key a) now i pk _ _ W P Sc Er) as G. cbn in G.
  destruct (good_step_preserves mac _ _ _ _ _ _ _ _ G Sp) as (P1 & P2 & P3).
  apply IH.
  - destruct P as (Q1 & Q2). split; [rewrite P1; exact Q1|rewrite P1, P2; exact Q2].
  - exact P3.
  - unfold start_scope. rewrite (get_peer_nonzero t ia eg l ia' if' W El Ep). reflexivity.
Qed.
End C4.
