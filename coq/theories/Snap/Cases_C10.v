(** Correspondence driver for C10: evaluated by [vm_compute] on case files written by
    harness/hc_snap/src/bin/h_snap_token.rs.  For each case the harness built a token from a
    known structure (header members, payload members, which keys the signature verifies
    under), ran the real `SnapTokenVerifier::verify` and the real control-plane router
    (`build_router` -> AuthMiddleware -> register_snaptun_identity_handler with a recording
    identity registry), and recorded what they answered.  Here the model is run on the same
    structure and compared, and the property oracle [spec_acceptb] (Spec_C10) is evaluated
    against the IMPLEMENTATION's answers. *)
From Sci Require Export Snap.Model_C10 Snap.Spec_C10.
Local Open Scope string_scope. Local Open Scope N_scope.

(** frequent strings, named so that case files elaborate quickly *)
Definition S_pssid : string := "pssid".
Definition S_exp : string := "exp".
Definition S_jti : string := "jti".
Definition S_ver : string := "ver".
Definition S_iss : string := "iss".
Definition S_aud : string := "aud".
Definition S_nbf : string := "nbf".
Definition S_iat : string := "iat".
Definition S_sub : string := "sub".
Definition S_uuid0 : string := "ef16640f-0fa9-4360-be74-dbeec7ab4f9a".
Definition S_pssid1 : string := "ABI-RWfomxLTpFZCZhQXQAA".
Definition S_ssr : string := "ssr".
Definition S_snap : string := "snap".
Definition S_jti0 : string := "jti-0".
Definition S_jti1 : string := "jti-1".
Definition S_JWT : string := "JWT".
Definition S_k1 : string := "k1".
Definition S_k0 : string := "k0".
Definition S_other : string := "other".
Definition S_num : string := "1900000000".

Record tcase := mkTCase {
  tc_now : N;                       (* unix seconds when the verifier was called *)
  tc_header : option raw_header;
  tc_claims : option claims;
  tc_sig_keys : list N;             (* keys under which the signature verifies *)
  tc_uuid_ok : bool;                (* oracle answers for this token's "pssid" string *)
  tc_pssid1_ok : bool;
  tc_jwks : option (list (string * N));   (* JWKS store content, None: not configured *)
  tc_code : N;                      (* verify(): 0 Ok, else error class, 99 panic *)
  tc_ver : N; tc_exp : N;           (* claims returned by verify() when Ok *)
  tc_status : N;                    (* router: 0 registered, 1 = 401, 2 = "expiration time is
                                       in the past", 3 = other status, 99 = panic,
                                       98 = router not run (JWKS configuration: verify() only) *)
  tc_lifetime : N                   (* seconds passed to SnapTunIdentityRegistry::register *)
}.

Definition STATIC_KEY : key := 0.
Definition TOLERANCE : N := 5.

Definition err_code (e : verr) : N :=
  match e with
  | EHeader => 1 | EUnknownKid => 2 | EAlg => 3 | ESig => 4 | EClaims => 5 | EMissing => 6
  | EFormat => 7 | EInvalidToken => 8 | EExpired => 9 | EImmature => 10 | EAud => 11
  end.

Definition case_token (c : tcase) : token :=
  mkToken (tc_header c) (tc_claims c) (fun k => existsb (N.eqb k) (tc_sig_keys c)).

Definition case_verifier (c : tcase) : verifier :=
  mkVerifier STATIC_KEY
    (match tc_jwks c with
     | None => None
     | Some l => Some (fun kid => match find (fun p => String.eqb (fst p) kid) l with
                                  | Some p => Some (snd p) | None => None end)
     end)
    snap_validation.

Definition verdict (c : tcase) : N :=
  let V := case_verifier c in
  let t := case_token c in
  let uo := fun _ : string => tc_uuid_ok c in
  let po := fun _ : string => tc_pssid1_ok c in
  let m := verify uo po V (tc_now c) t in
  let impl_accept := tc_code c =? 0 in
  (* 1. model against implementation *)
  let mis_verify :=
    match m with
    | Accept cl => negb (impl_accept && (c_ver cl =? tc_ver c) && (c_exp cl =? tc_exp c))
    | Reject e => negb (tc_code c =? err_code e)
    | Panicked _ => negb (tc_code c =? 99)
    end in
  let no_router := tc_status c =? 98 in
  let mis_router := negb no_router &&
    match m with
    | Accept cl =>
      match granted_lifetime (tc_now c) cl with
      | Granted l => negb ((tc_status c =? 0) && (tc_lifetime c <=? l) && (l <=? tc_lifetime c + TOLERANCE))
      | Refused => negb (tc_status c =? 2)
      | GrantPanic _ => negb (tc_status c =? 99)
      end
    | Reject _ => negb (tc_status c =? 1)
    | Panicked _ => negb (tc_status c =? 99)
    end in
  (* 2. property oracle on the implementation's answers *)
  let spec := spec_acceptb uo po V (tc_now c) t in
  let loose := spec_loose_b uo po V (tc_now c) t in
  let in_class := match tc_claims c with Some cl => malformed_aud cl | None => false end in
  let known := impl_accept && negb spec && loose && in_class in
  let wrong_verdict := negb (Bool.eqb impl_accept spec) && negb known in
  let router_wrong := negb no_router && negb (Bool.eqb (tc_status c =? 1) (negb impl_accept)) in
  let lifetime_wrong :=
    (tc_status c =? 0) && (tc_exp c + TOLERANCE <? tc_now c + tc_lifetime c) in
  (* 3. the oracle answers for the PSSID text against the shapes written in Spec_C10 *)
  let mis_oracle :=
    match tc_claims c with
    | Some cl => match jget "pssid" cl with
                 | Some (JStr p) => negb (Bool.eqb (uuid_shape p) (tc_uuid_ok c)) ||
                                    negb (Bool.eqb (pssid1_shape p) (tc_pssid1_ok c))
                 | _ => false
                 end
    | None => false
    end in
  (if mis_verify || mis_router || mis_oracle then 1 else 0) +
  (if wrong_verdict || router_wrong || lifetime_wrong || (tc_code c =? 99) || (tc_status c =? 99 ) && negb (I64_LIM <=? tc_exp c) then 2 else 0) +
  (if known then 16 else 0).

Definition verdicts (cs : list tcase) : list N := map verdict cs.
