(** C09 -- property theorems only.  The registry is the model of identity_registry.rs; the
    tunnel server is the model of snap-tun/src/server.rs over an ABSTRACT WireGuard endpoint
    (any types, any functions wg_new / wg_in / wg_out / wg_tick / hs_peer / is_keepalive): the
    theorems hold for every such endpoint, the attribution theorem under the single hypothesis
    [wg_authenticates], which the toy endpoint of Model_C09 satisfies
    ([toy_endpoint_satisfies_hypothesis]).  Partial with respect to the property sentence only
    in that WireGuard itself (ana-gotatun) and its timers are this oracle. *)
From Sci Require Import Snap.Model_C09 Snap.Spec_C09 Snap.Proofs_C09.
From Coq Require Import Lia.
Local Open Scope N_scope.

(** After ANY history of register / clock / purge / packet / timer events, at most one key is
    associated with an identity (one identity per key holds because associations is a map),
    every session has an association and every association a session. *)
Theorem registry_inv :
  forall (wg pkt payload : Type) wg_new wg_in wg_out wg_tick hs_peer is_keepalive
         (es : list (@event pkt payload)),
    RegInv (reg (@final wg pkt payload wg_new wg_in wg_out wg_tick hs_peer is_keepalive state0 es)).
Proof.
  intros. refine (proj1 (final_inv wg pkt payload wg_new wg_in wg_out wg_tick hs_peer is_keepalive es state0 [] _ _)).
  - exact reginv_empty.
  - exact hinv_empty.
Qed.
Print Assumptions registry_inv.

(** After any history, for every identity and every time t not before the current clock:
    the registry authorises id at t  iff  the latest registration of id in the history has not
    been followed by a registration of a different identity under the same key, and its
    expiry (registration time + lifetime) is strictly after t.  [auth_spec] reads only the
    event list. *)
Theorem authorized_iff :
  forall (wg pkt payload : Type) wg_new wg_in wg_out wg_tick hs_peer is_keepalive
         (es : list (@event pkt payload)) (id : ident) (t : time),
    let s := @final wg pkt payload wg_new wg_in wg_out wg_tick hs_peer is_keepalive state0 es in
    now s <= t ->
    is_authorized (reg s) t id = auth_spec (fst (history_of es)) id t /\
    snd (history_of es) = now s.
Proof.
  intros wg pkt payload wg_new wg_in wg_out wg_tick hs_peer is_keepalive es id t s Ht.
  destruct (final_inv wg pkt payload wg_new wg_in wg_out wg_tick hs_peer is_keepalive es state0 []
              reginv_empty hinv_empty) as (_ & H & Hc).
  split; [|exact Hc]. exact (hinv_authorized _ _ _ id t H Ht).
Qed.
Print Assumptions authorized_iff.

(** In every run from every state: whenever a tunnelled payload is delivered to the SCION side,
    an outbound payload is taken into the tunnel, or any datagram is sent towards the client
    while handling its packet, the identity recorded for that tunnel is authorised by the
    registry at that very moment. *)
Theorem forward_requires_authorization :
  forall (wg pkt payload : Type) wg_new wg_in wg_out wg_tick hs_peer is_keepalive
         (s : @state wg) (es : list (@event pkt payload)) s1 e o id,
    In (s1, e, o) (snd (@run wg pkt payload wg_new wg_in wg_out wg_tick hs_peer is_keepalive s es)) ->
    flows_for id o -> is_authorized (reg s1) (now s1) id = true.
Proof. intros. eapply run_flow_authorized; eassumption. Qed.
Print Assumptions forward_requires_authorization.

(** Once an identity is not authorised (lapsed, superseded, purged or never registered),
    nothing flows for it in either direction, whatever happens, until an event registers
    that identity again. *)
Theorem nothing_after_lapse :
  forall (wg pkt payload : Type) wg_new wg_in wg_out wg_tick hs_peer is_keepalive
         (s : @state wg) (es : list (@event pkt payload)) id,
    is_authorized (reg s) (now s) id = false ->
    (forall e, In e es -> ~ registers id e) ->
    forall s1 e o,
      In (s1, e, o) (snd (@run wg pkt payload wg_new wg_in wg_out wg_tick hs_peer is_keepalive s es)) ->
      ~ flows_for id o.
Proof. intros. eapply run_nothing_after_lapse; eassumption. Qed.
Print Assumptions nothing_after_lapse.

(** "... or is superseded by a new identity under the same token": from any state in which key k
    is associated with id, registering a different identity under k makes id unauthorised at
    once, and nothing flows for id in whatever follows until id registers again. *)
Theorem nothing_after_supersede :
  forall (wg pkt payload : Type) wg_new wg_in wg_out wg_tick hs_peer is_keepalive
         (s : @state wg) k id id' l (es : list (@event pkt payload)),
    associations (reg s) k = Some id -> id' <> id ->
    (forall e, In e es -> ~ registers id e) ->
    forall s1 e o,
      In (s1, e, o) (snd (@run wg pkt payload wg_new wg_in wg_out wg_tick hs_peer is_keepalive s
                            (ERegister k id' l :: es))) ->
      ~ flows_for id o.
Proof.
  intros wg pkt payload wg_new wg_in wg_out wg_tick hs_peer is_keepalive s k id id' l es Ha Hne Hnr s1 e o Hin.
  destruct (step_register_reg wg pkt payload wg_new wg_in wg_out wg_tick hs_peer is_keepalive s k id' l)
    as (Hr & Hn & Hf).
  rewrite run_cons in Hin. cbn [snd] in Hin. destruct Hin as [Heq|Hin].
  - inversion Heq; subst. apply Hf.
  - refine (run_nothing_after_lapse wg pkt payload wg_new wg_in wg_out wg_tick hs_peer is_keepalive es _ id _ Hnr s1 e o Hin).
    rewrite Hr, Hn. exact (supersede_unauthorizes (reg s) (now s) k id id' l (now s) Ha Hne).
Qed.
Print Assumptions nothing_after_supersede.

(** "after a registration lapses": a session whose expiry is not strictly after t does not
    authorise at t (the comparison is the strict one of the source) *)
Theorem lapsed_registration_not_authorized :
  forall (r : registry) id e t, sessions r id = Some e -> e <= t -> is_authorized r t id = false.
Proof.
  intros r id e t Hs Hle. unfold is_authorized. rewrite Hs, reg_auth_strict. lia.
Qed.
Print Assumptions lapsed_registration_not_authorized.

(** Attribution: in every run from the empty server, a payload forwarded from address a is
    attributed to (session data of) identity id only if the datagram was authenticated by id,
    id is authorised at that moment, and the tunnel at a is the one recorded for id -- for
    every WireGuard endpoint satisfying the hypothesis. *)
Theorem attribution :
  forall (wg pkt payload : Type) wg_new wg_in wg_out wg_tick hs_peer is_keepalive
         (authentic : pkt -> ident -> Prop),
    wg_authenticates wg pkt payload wg_new wg_in wg_out wg_tick authentic ->
    forall (es : list (@event pkt payload)) s1 a p id pl sent,
      In (s1, EPacketIn a p, OIncoming a id (Some pl) sent)
         (snd (@run wg pkt payload wg_new wg_in wg_out wg_tick hs_peer is_keepalive state0 es)) ->
      authentic p id /\ is_authorized (reg s1) (now s1) id = true.
Proof.
  intros wg pkt payload wg_new wg_in wg_out wg_tick hs_peer is_keepalive authentic HA es s1 a p id pl sent Hin.
  assert (tunnels_sound wg pkt payload wg_new wg_in wg_out wg_tick s1) as T.
  { eapply run_tunnels_sound; [|exact Hin]. intros a' t'. cbn. discriminate. }
  assert (snd (@step wg pkt payload wg_new wg_in wg_out wg_tick hs_peer is_keepalive s1 (EPacketIn a p))
          = OIncoming a id (Some pl) sent) as E.
  { clear T. revert Hin. generalize (@state0 wg). induction es as [|e0 es IH]; intros s Hin; [destruct Hin|].
    rewrite run_cons in Hin. cbn [snd] in Hin. destruct Hin as [Heq|Hin]; [|exact (IH _ Hin)].
    inversion Heq; subst. reflexivity. }
  destruct (step_forward_authentic wg pkt payload wg_new wg_in wg_out wg_tick hs_peer is_keepalive
              authentic s1 a p id pl sent HA T E) as (H1 & H2 & _).
  split; assumption.
Qed.
Print Assumptions attribution.

(** Outbound: an outbound payload for address a is handed to the WireGuard endpoint that was
    created for the identity recorded for a (so it is encrypted towards that client's static
    key and no other), and only while that identity is authorised. *)
Theorem outbound_uses_identitys_endpoint :
  forall (wg pkt payload : Type) wg_new wg_in wg_out wg_tick hs_peer is_keepalive
         (es : list (@event pkt payload)) s1 a pl id p,
    In (s1, EPacketOut a pl, OEncrypted a id p)
       (snd (@run wg pkt payload wg_new wg_in wg_out wg_tick hs_peer is_keepalive state0 es)) ->
    exists t, tunnels s1 a = Some t /\ peer_static t = id /\
              Reach wg pkt payload wg_new wg_in wg_out wg_tick id (tunn t) /\
              p = snd (wg_out (tunn t) pl) /\
              is_authorized (reg s1) (now s1) id = true.
Proof.
  intros wg pkt payload wg_new wg_in wg_out wg_tick hs_peer is_keepalive es s1 a pl id p Hin.
  assert (tunnels_sound wg pkt payload wg_new wg_in wg_out wg_tick s1) as T.
  { eapply run_tunnels_sound; [|exact Hin]. intros a' t'. cbn. discriminate. }
  pose proof (run_entry_is_step wg pkt payload wg_new wg_in wg_out wg_tick hs_peer is_keepalive es _ _ _ _ Hin) as E.
  symmetry in E.
  destruct (step_outgoing_endpoint wg pkt payload wg_new wg_in wg_out wg_tick hs_peer is_keepalive s1 a pl id p E)
    as (t & Ht & Hid & Hp & Ha).
  exists t. refine (conj Ht (conj Hid (conj _ (conj Hp Ha)))). rewrite <- Hid. exact (T a t Ht).
Qed.
Print Assumptions outbound_uses_identitys_endpoint.

(** the hypothesis of [attribution] is satisfiable: the toy authenticated channel meets it *)
Theorem toy_endpoint_satisfies_hypothesis :
  wg_authenticates toy_wg toy_pkt (list N) toy_new toy_in toy_out toy_tick toy_authentic.
Proof. exact toy_authenticates. Qed.
Print Assumptions toy_endpoint_satisfies_hypothesis.

(** non-vacuity: with the toy endpoint, a registered identity's data is forwarded, and after
    its registration lapses the same packet is refused *)
Example ex_flow :
  map snd (snd (@run toy_wg toy_pkt (list N) toy_new toy_in toy_out toy_tick toy_hs toy_keepalive state0
     [ERegister 0 1 5; EPacketIn 0 (THandshake 1); EPacketIn 0 (TData 1 [42]); EAdvance 5; EPacketIn 0 (TData 1 [43])]))
  = [ORegistered true; OIncoming 0 1 None [TResponse]; OIncoming 0 1 (Some [42]) []; ONothing; OUnauthorized].
Proof. vm_compute. reflexivity. Qed.
