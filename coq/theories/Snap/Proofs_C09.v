(** C09 -- lemmas: registry invariants, authorisation = history predicate, and the trace
    properties of the tunnel server over an abstract WireGuard endpoint. *)
From Sci Require Import Snap.Model_C09 Snap.Spec_C09.
From Coq Require Import Lia ZifyBool ZifyN.
Local Open Scope N_scope.

(** the generated comparison is the strict one (`expires_at > now`) *)
Lemma reg_auth_strict e t : registration_is_authorized e t = (t <? e).
Proof. reflexivity. Qed.

Ltac deq :=
  repeat match goal with
  | H : context [?a =? ?b] |- _ => destruct (N.eqb_spec a b); subst; cbn [negb orb andb] in H
  | |- context [?a =? ?b] => destruct (N.eqb_spec a b); subst; cbn [negb orb andb]
  end.

(** * registry invariants *)
Lemma reginv_empty : RegInv reg_empty.
Proof. refine (conj _ (conj _ _)); intros ? ? ?; cbn; discriminate. Qed.

(** what add_identity does, member by member *)
Lemma add_assoc_spec r k id e k' i :
  associations (fst (add_identity r k id e)) k' = Some i <->
  (k' = k /\ i = id) \/ (k' <> k /\ i <> id /\ associations r k' = Some i).
Proof.
  unfold add_identity. cbn [fst associations]. unfold upd.
  destruct (N.eqb_spec k' k) as [Hk|Hk].
  - cbn [negb orb]. rewrite orb_true_r. split.
    + intros E; inversion E. left. split; [exact Hk|reflexivity].
    + intros [[_ ->]|[H _]]; [reflexivity|contradiction].
  - destruct (associations r k') as [j|].
    + rewrite orb_false_r. destruct (N.eqb_spec j id) as [Hj|Hj]; cbn [negb].
      * split; [discriminate|]. intros [[H _]|[_ [H1 H2]]]; [contradiction|]. inversion H2; congruence.
      * split.
        -- intros E; inversion E; subst. right. repeat split; assumption.
        -- intros [[H _]|[_ [_ H2]]]; [contradiction|exact H2].
    + split; [discriminate|]. intros [[H _]|[_ [_ H2]]]; [contradiction|discriminate].
Qed.

Lemma add_sess_spec r k id e j e' :
  sessions (fst (add_identity r k id e)) j = Some e' <->
  (j = id /\ e' = e) \/ (j <> id /\ sessions r j = Some e' /\ associations r k <> Some j).
Proof.
  unfold add_identity. cbn [fst sessions]. unfold upd.
  destruct (N.eqb_spec j id) as [Hj|Hj].
  - split.
    + intros E; inversion E. left. split; [exact Hj|reflexivity].
    + intros [[_ ->]|[H _]]; [reflexivity|contradiction].
  - destruct (associations r k) as [p|].
    + destruct (N.eqb_spec p id) as [Hp|Hp].
      * split.
        -- intros E. right. repeat split; try assumption. intros X; inversion X; congruence.
        -- intros [[H _]|[_ [H2 _]]]; [contradiction|exact H2].
      * destruct (N.eqb_spec j p) as [Hjp|Hjp].
        -- split; [discriminate|]. intros [[H _]|[_ [_ H3]]]; [contradiction|]. exfalso. apply H3. congruence.
        -- split.
           ++ intros E. right. repeat split; try assumption. intros X; inversion X; congruence.
           ++ intros [[H _]|[_ [H2 _]]]; [contradiction|exact H2].
    + split.
      * intros E. right. repeat split; try assumption. discriminate.
      * intros [[H _]|[_ [H2 _]]]; [contradiction|exact H2].
Qed.

Lemma add_sess_none r k id e j :
  sessions (fst (add_identity r k id e)) j = None ->
  j <> id /\ (sessions r j = None \/ associations r k = Some j).
Proof.
  intros H. destruct (N.eqb_spec j id) as [->|Hj].
  - exfalso. assert (sessions (fst (add_identity r k id e)) id = Some e) as X
      by (apply add_sess_spec; left; split; reflexivity). congruence.
  - split; [exact Hj|]. destruct (sessions r j) as [e'|] eqn:Es; [|left; reflexivity].
    right. destruct (associations r k) as [p|] eqn:Ep.
    + destruct (N.eqb_spec p j) as [->|Hp]; [reflexivity|]. exfalso.
      assert (sessions (fst (add_identity r k id e)) j = Some e') as X.
      { apply add_sess_spec. right. repeat split; try assumption. rewrite Ep. intros X; inversion X; congruence. }
      congruence.
    + exfalso. assert (sessions (fst (add_identity r k id e)) j = Some e') as X.
      { apply add_sess_spec. right. repeat split; try assumption. rewrite Ep. discriminate. }
      congruence.
Qed.

Lemma add_identity_inv r k id e : RegInv r -> RegInv (fst (add_identity r k id e)).
Proof.
  intros (I1 & I2 & I3).
  unfold RegInv, one_key_per_identity, sessions_have_keys, keys_have_sessions in *.
  refine (conj _ (conj _ _)).
  - intros k1 k2 i H1 H2. apply add_assoc_spec in H1, H2.
    destruct H1 as [[-> ->]|(N1 & Ni & A1)], H2 as [[-> E2]|(N2 & Ni2 & A2)]; try congruence.
    exact (I1 k1 k2 i A1 A2).
  - intros j e' H. apply add_sess_spec in H. destruct H as [[-> ->]|(Hj & Hs & Hk)].
    + exists k. apply add_assoc_spec. left. split; reflexivity.
    + destruct (I2 j e' Hs) as [k0 Hk0]. exists k0. apply add_assoc_spec. right.
      repeat split; try assumption. intros ->. contradiction.
  - intros k' j H. apply add_assoc_spec in H. destruct H as [[-> ->]|(Hk & Hj & A)].
    + exists e. apply add_sess_spec. left. split; reflexivity.
    + destruct (I3 k' j A) as [e' He']. exists e'. apply add_sess_spec. right.
      repeat split; try assumption. intros X. apply Hk. exact (I1 k' k j A X).
Qed.

Lemma clean_expired_inv r t : RegInv r -> RegInv (clean_expired r t).
Proof.
  intros (I1 & I2 & I3). unfold clean_expired.
  unfold RegInv, one_key_per_identity, sessions_have_keys, keys_have_sessions in *.
  refine (conj _ (conj _ _)).
  - intros k1 k2 i H1 H2. cbn [associations] in *.
    destruct (associations r k1) as [i1|] eqn:E1; [|discriminate].
    destruct (associations r k2) as [i2|] eqn:E2; [|discriminate].
    destruct (expired r t i1); [discriminate|]. destruct (expired r t i2); [discriminate|].
    inversion H1; inversion H2; subst. exact (I1 k1 k2 i E1 E2).
  - intros j e H. cbn [sessions associations] in *.
    destruct (expired r t j) eqn:Ex; [discriminate|].
    destruct (I2 j e H) as [k0 Hk0]. exists k0. rewrite Hk0, Ex. reflexivity.
  - intros k j H. cbn [sessions associations] in *.
    destruct (associations r k) as [i|] eqn:E; [|discriminate].
    destruct (expired r t i) eqn:Ex; [discriminate|]. inversion H; subst.
    rewrite Ex. exact (I3 k j E).
Qed.

(** * authorisation from the history *)
Definition latest_key (rh : reg_history) (id : ident) : option key :=
  match find (fun x => snd (fst x) =? id) rh with Some x => Some (fst (fst x)) | None => None end.

Lemma scan_later rh id : forall l,
  auth_scan rh id l =
  match latest_key rh id with
  | None => None
  | Some k0 => if existsb (supersedes k0 id) l then None else auth_scan rh id []
  end.
Proof.
  unfold latest_key. induction rh as [|[[k i] e] older IH]; intros l; cbn [auth_scan find fst snd].
  - reflexivity.
  - destruct (N.eqb_spec i id) as [->|Hi].
    + cbn [existsb]. destruct (existsb _ l); reflexivity.
    + rewrite (IH ((k, i) :: l)), (IH [(k, i)]).
      destruct (find (fun x : key * N * time => snd (fst x) =? id) older) as [x|]; [|reflexivity].
      cbn [existsb]. rewrite orb_false_r. destruct (supersedes _ id (k, i)); cbn [orb]; [|reflexivity].
      destruct (existsb _ l); reflexivity.
Qed.

Lemma scan_some_key rh id l e : auth_scan rh id l = Some e -> exists k0, latest_key rh id = Some k0.
Proof. rewrite scan_later. destruct (latest_key rh id) as [k0|]; [eauto|discriminate]. Qed.

Record HInv (r : registry) (rh : reg_history) (clock : time) : Prop := mkHInv {
  hi_some : forall id e, sessions r id = Some e ->
              auth_scan rh id [] = Some e /\
              (forall k, associations r k = Some id <-> latest_key rh id = Some k);
  hi_none : forall id, sessions r id = None ->
              match auth_scan rh id [] with Some e => e <= clock | None => True end }.

Lemma hinv_empty : HInv reg_empty [] 0.
Proof. split; intros; cbn in *; [discriminate|exact I]. Qed.

Lemma latest_key_cons k i e rh id :
  latest_key ((k, i, e) :: rh) id = if i =? id then Some k else latest_key rh id.
Proof. unfold latest_key. cbn [find fst snd]. destruct (i =? id); reflexivity. Qed.

Lemma hinv_register r rh c k i l :
  HInv r rh c -> HInv (fst (register r c k i l)) ((k, i, c + l) :: rh) c.
Proof.
  intros [HS HN]. unfold register. split.
  - intros id e0 H. apply add_sess_spec in H. destruct H as [[-> ->]|(Hid & Hs & Hk)].
    + cbn [auth_scan]. rewrite N.eqb_refl. cbn [existsb]. split; [reflexivity|].
      intros k'. rewrite latest_key_cons, N.eqb_refl. rewrite add_assoc_spec. split.
      * intros [[-> _]|(_ & X & _)]; [reflexivity|congruence].
      * intros E; inversion E. left. split; reflexivity.
    + destruct (HS id e0 Hs) as [Hscan Hkey].
      destruct (scan_some_key rh id [] e0 Hscan) as [k0 Hk0].
      assert (k0 <> k) as Hne by (intros ->; apply Hk; apply Hkey; exact Hk0).
      cbn [auth_scan]. destruct (N.eqb_spec i id) as [Hi|Hi]; [congruence|].
      rewrite scan_later, Hk0. cbn [existsb]. unfold supersedes. cbn [fst snd].
      destruct (N.eqb_spec k k0); [congruence|]. cbn [andb orb]. split; [exact Hscan|].
      intros k'. rewrite latest_key_cons. destruct (N.eqb_spec i id); [congruence|].
      rewrite add_assoc_spec, Hk0. split.
      * intros [[_ X]|(_ & _ & A)]; [congruence|]. apply Hkey in A. congruence.
      * intros E; inversion E; subst k'. right. repeat split; try congruence. apply Hkey. exact Hk0.
  - intros id H. apply add_sess_none in H. destruct H as [Hid Hcase].
    cbn [auth_scan]. destruct (N.eqb_spec i id) as [Hi|Hi]; [congruence|].
    rewrite scan_later. destruct (latest_key rh id) as [k0|] eqn:Hk0; [|exact I].
    cbn [existsb]. unfold supersedes. cbn [fst snd]. destruct (N.eqb_spec i id); [congruence|]. cbn [negb].
    rewrite andb_true_r, orb_false_r.
    destruct (N.eqb_spec k k0) as [->|Hne]; [exact I|].
    destruct Hcase as [Hn|Hk].
    + exact (HN id Hn).
    + (* key k held id: then k is the key of id's latest registration *)
      destruct (sessions r id) as [e0|] eqn:Es.
      * exfalso. destruct (HS id e0 Es) as [_ Hkey]. apply Hkey in Hk. congruence.
      * exact (HN id Es).
Qed.

Lemma hinv_purge r rh c : HInv r rh c -> HInv (clean_expired r c) rh c.
Proof.
  intros [HS HN]. unfold clean_expired. split.
  - intros id e H. cbn [sessions associations] in *.
    destruct (expired r c id) eqn:Ex; [discriminate|].
    destruct (HS id e H) as [Hscan Hkey]. split; [exact Hscan|].
    intros k. rewrite <- Hkey. destruct (associations r k) as [j|]; [|tauto].
    destruct (expired r c j) eqn:Ej; [|tauto].
    split; [discriminate|intros E; inversion E; congruence].
  - intros id H. cbn [sessions] in H.
    destruct (expired r c id) eqn:Ex; [|exact (HN id H)].
    unfold expired in Ex. destruct (sessions r id) as [e|] eqn:Es; [|discriminate].
    destruct (HS id e Es) as [-> _]. rewrite reg_auth_strict in Ex. lia.
Qed.

Lemma hinv_advance r rh c d : HInv r rh c -> HInv r rh (c + d).
Proof.
  intros [HS HN]. split; [exact HS|]. intros id H. specialize (HN id H).
  destruct (auth_scan rh id []); [lia|exact I].
Qed.

Lemma hinv_authorized r rh c id t :
  HInv r rh c -> c <= t -> is_authorized r t id = auth_spec rh id t.
Proof.
  intros [HS HN] Hle. unfold is_authorized, auth_spec.
  destruct (sessions r id) as [e|] eqn:Es.
  - destruct (HS id e Es) as [-> _]. apply reg_auth_strict.
  - specialize (HN id Es). destruct (auth_scan rh id []) as [e|]; [|reflexivity]. lia.
Qed.


(** ** supersession: registering a different identity under a key revokes the previous one *)
Lemma supersede_unauthorizes r c k id id' l t :
  associations r k = Some id -> id' <> id ->
  is_authorized (fst (register r c k id' l)) t id = false.
Proof.
  intros Ha Hne. unfold is_authorized, register.
  destruct (sessions (fst (add_identity r k id' (c + l))) id) as [e|] eqn:E; [|reflexivity].
  exfalso. apply add_sess_spec in E. destruct E as [[H _]|(_ & _ & H)]; congruence.
Qed.

(** * the server over an abstract endpoint *)
Section Server.
Variables (wg pkt payload : Type).
Variable wg_new : ident -> wg.
Variable wg_in : wg -> pkt -> wg * option payload * list pkt.
Variable wg_out : wg -> payload -> wg * option pkt.
Variable wg_tick : wg -> wg * bool.
Variable hs_peer : pkt -> option ident.
Variable is_keepalive : payload -> bool.

Notation step := (@step wg pkt payload wg_new wg_in wg_out wg_tick hs_peer is_keepalive).
Notation run := (@run wg pkt payload wg_new wg_in wg_out wg_tick hs_peer is_keepalive).
Notation final := (@final wg pkt payload wg_new wg_in wg_out wg_tick hs_peer is_keepalive).
Notation handle_incoming := (@handle_incoming wg pkt payload wg_new wg_in hs_peer is_keepalive).
Notation handle_outgoing := (@handle_outgoing wg pkt payload wg_out).
Notation Reach := (Reach wg pkt payload wg_new wg_in wg_out wg_tick).

(** packet events and timer ticks leave the registry and the clock alone *)
Lemma incoming_reg s a p : reg (fst (handle_incoming s a p)) = reg s /\ now (fst (handle_incoming s a p)) = now s.
Proof.
  unfold Model_C09.handle_incoming. destruct (tunnels s a) as [t|].
  - destruct (is_authorized _ _ _); [|split; reflexivity].
    destruct (wg_in (tunn t) p) as [[w' r] sent]. split; reflexivity.
  - destruct (hs_peer p) as [x|]; [|split; reflexivity].
    destruct (is_authorized _ _ _); [|split; reflexivity].
    destruct (wg_in (wg_new x) p) as [[w' r] sent]. split; reflexivity.
Qed.
Lemma outgoing_reg s a pl : reg (fst (handle_outgoing s a pl)) = reg s /\ now (fst (handle_outgoing s a pl)) = now s.
Proof.
  unfold Model_C09.handle_outgoing. destruct (tunnels s a) as [t|]; [|split; reflexivity].
  destruct (is_authorized _ _ _); [|split; reflexivity].
  destruct (wg_out (tunn t) pl) as [w' p]. split; reflexivity.
Qed.

Lemma step_register_reg s k id l :
  reg (fst (step s (ERegister k id l))) = fst (register (reg s) (now s) k id l) /\
  now (fst (step s (ERegister k id l))) = now s /\
  forall x, ~ flows_for x (snd (step s (ERegister k id l))).
Proof.
  cbn [Model_C09.step]. destruct (register (reg s) (now s) k id l) as [r' wn].
  refine (conj eq_refl (conj eq_refl _)). intros x [].
Qed.

Lemma step_reginv s e : RegInv (reg s) -> RegInv (reg (fst (step s e))).
Proof.
  intros I. destruct e as [k id l| d | | a p | a pl | ]; cbn [Model_C09.step].
  - pose proof (add_identity_inv (reg s) k id (now s + l) I) as H. unfold register.
    destruct (add_identity (reg s) k id (now s + l)) as [r' wn]. exact H.
  - exact I.
  - apply clean_expired_inv. exact I.
  - rewrite (proj1 (incoming_reg s a p)). exact I.
  - rewrite (proj1 (outgoing_reg s a pl)). exact I.
  - exact I.
Qed.

Lemma step_hinv s e rh :
  HInv (reg s) rh (now s) ->
  HInv (reg (fst (step s e))) (fst (hist_step (rh, now s) e)) (now (fst (step s e))) /\
  snd (hist_step (rh, now s) e) = now (fst (step s e)).
Proof.
  intros I. destruct e as [k id l| d | | a p | a pl | ]; cbn [Model_C09.step hist_step fst snd].
  - pose proof (hinv_register (reg s) rh (now s) k id l I) as H.
    destruct (register (reg s) (now s) k id l) as [r' wn]. split; [exact H|reflexivity].
  - split; [apply hinv_advance; exact I|reflexivity].
  - split; [apply hinv_purge; exact I|reflexivity].
  - destruct (incoming_reg s a p) as [-> ->]. split; [exact I|reflexivity].
  - destruct (outgoing_reg s a pl) as [-> ->]. split; [exact I|reflexivity].
  - split; [exact I|reflexivity].
Qed.

Lemma final_inv es : forall s rh,
  RegInv (reg s) -> HInv (reg s) rh (now s) ->
  RegInv (reg (final s es)) /\
  HInv (reg (final s es)) (fst (fold_left hist_step es (rh, now s))) (now (final s es)) /\
  snd (fold_left hist_step es (rh, now s)) = now (final s es).
Proof.
  unfold Model_C09.final. induction es as [|e es IH]; intros s rh R H; cbn [fold_left].
  - refine (conj R (conj H eq_refl)).
  - destruct (step_hinv s e rh H) as [H' Hc]. pose proof (step_reginv s e R) as R'.
    destruct (hist_step (rh, now s) e) as [rh' c'] eqn:E. cbn [fst snd] in *. subst c'.
    exact (IH _ rh' R' H').
Qed.

(** ** whatever flows, flows for an identity that is authorised at that moment *)
Lemma step_flow_authorized s e id :
  flows_for id (snd (step s e)) -> is_authorized (reg s) (now s) id = true.
Proof.
  destruct e as [k i l| d | | a p | a pl | ]; cbn [Model_C09.step].
  - destruct (register _ _ _ _ _); intros [].
  - intros [].
  - intros [].
  - unfold Model_C09.handle_incoming. destruct (tunnels s a) as [t|].
    + destruct (is_authorized (reg s) (now s) (peer_static t)) eqn:A; [|intros []].
      destruct (wg_in (tunn t) p) as [[w' r] sent]. cbn [snd]. unfold incoming_result.
      destruct r as [pl|]; [destruct (is_keepalive pl)|]; cbn [flows_for].
      * destruct sent; [intros []|intros <-; exact A].
      * intros <-; exact A.
      * destruct sent; [intros []|intros <-; exact A].
    + destruct (hs_peer p) as [x|]; [|intros []].
      destruct (is_authorized (reg s) (now s) x) eqn:A; [|intros []].
      destruct (wg_in (wg_new x) p) as [[w' r] sent]. cbn [snd]. unfold incoming_result.
      destruct r as [pl|]; [destruct (is_keepalive pl)|]; cbn [flows_for].
      * destruct sent; [intros []|intros <-; exact A].
      * intros <-; exact A.
      * destruct sent; [intros []|intros <-; exact A].
  - unfold Model_C09.handle_outgoing. destruct (tunnels s a) as [t|]; [|intros []].
    destruct (is_authorized (reg s) (now s) (peer_static t)) eqn:A; [|intros []].
    destruct (wg_out (tunn t) pl) as [w' p]. cbn [snd flows_for]. intros <-. exact A.
  - intros [].
Qed.

Lemma run_cons s e es :
  run s (e :: es) = (fst (run (fst (step s e)) es), (s, e, snd (step s e)) :: snd (run (fst (step s e)) es)).
Proof.
  cbn [Model_C09.run]. destruct (step s e) as [s' o]. cbn [fst snd].
  destruct (run s' es) as [sf tr]. reflexivity.
Qed.

Lemma run_flow_authorized es : forall s s1 e o id,
  In (s1, e, o) (snd (run s es)) -> flows_for id o -> is_authorized (reg s1) (now s1) id = true.
Proof.
  induction es as [|e0 es IH]; intros s s1 e o id Hin Hf.
  - destruct Hin.
  - rewrite run_cons in Hin. cbn [snd] in Hin. destruct Hin as [Heq|Hin].
    + inversion Heq; subst. exact (step_flow_authorized s1 e id Hf).
    + exact (IH _ s1 e o id Hin Hf).
Qed.

(** ** nothing flows for an identity that is not authorised, until it registers again *)
Lemma step_unauth_preserved s e id :
  ~ registers id e -> is_authorized (reg s) (now s) id = false ->
  is_authorized (reg (fst (step s e))) (now (fst (step s e))) id = false.
Proof.
  intros Hr Hu. destruct e as [k i l| d | | a p | a pl | ]; cbn [Model_C09.step].
  - cbn [registers] in Hr. unfold register, add_identity. cbn [fst reg now].
    unfold is_authorized in *. cbn [sessions]. unfold upd.
    destruct (N.eqb_spec id i) as [->|Hid]; [congruence|].
    destruct (associations (reg s) k) as [p|]; [|exact Hu].
    destruct (N.eqb_spec p i); [exact Hu|]. destruct (N.eqb_spec id p); [reflexivity|exact Hu].
  - cbn [fst reg now]. unfold is_authorized in *. destruct (sessions (reg s) id) as [e|]; [|reflexivity].
    rewrite reg_auth_strict in *. lia.
  - cbn [fst reg now]. unfold is_authorized, clean_expired in *. cbn [sessions].
    destruct (expired (reg s) (now s) id); [reflexivity|exact Hu].
  - destruct (incoming_reg s a p) as [-> ->]. exact Hu.
  - destruct (outgoing_reg s a pl) as [-> ->]. exact Hu.
  - exact Hu.
Qed.

Lemma run_nothing_after_lapse es : forall s id,
  is_authorized (reg s) (now s) id = false ->
  (forall e, In e es -> ~ registers id e) ->
  forall s1 e o, In (s1, e, o) (snd (run s es)) -> ~ flows_for id o.
Proof.
  induction es as [|e0 es IH]; intros s id Hu Hnr s1 e o Hin.
  - destruct Hin.
  - rewrite run_cons in Hin. cbn [snd] in Hin. destruct Hin as [Heq|Hin].
    + inversion Heq; subst. intros Hf. rewrite (step_flow_authorized s1 e id Hf) in Hu. discriminate.
    + refine (IH _ id _ _ s1 e o Hin).
      * apply step_unauth_preserved; [apply Hnr; left; reflexivity|exact Hu].
      * intros e' He'. apply Hnr. right. exact He'.
Qed.

(** ** attribution: tunnels are endpoints created for their recorded peer identity *)
Lemma step_tunnels_sound s e :
  tunnels_sound wg pkt payload wg_new wg_in wg_out wg_tick s ->
  tunnels_sound wg pkt payload wg_new wg_in wg_out wg_tick (fst (step s e)).
Proof.
  intros T. destruct e as [k i l| d | | a p | a pl | ]; cbn [Model_C09.step].
  - destruct (register _ _ _ _ _). exact T.
  - exact T.
  - exact T.
  - unfold Model_C09.handle_incoming. destruct (tunnels s a) as [t|] eqn:Et.
    + destruct (is_authorized _ _ _); [|exact T].
      pose proof (R_in wg pkt payload wg_new wg_in wg_out wg_tick _ _ p (T a t Et)) as HR.
      destruct (wg_in (tunn t) p) as [[w' r] sent]. cbn [fst] in *.
      intros a' t'. cbn [tunnels]. unfold upd. destruct (N.eqb_spec a' a) as [->|]; [|apply T].
      intros E; inversion E; subst. exact HR.
    + destruct (hs_peer p) as [x|]; [|exact T].
      destruct (is_authorized _ _ _); [|exact T].
      pose proof (R_in wg pkt payload wg_new wg_in wg_out wg_tick x _ p (R_new wg pkt payload wg_new wg_in wg_out wg_tick x)) as HR.
      destruct (wg_in (wg_new x) p) as [[w' r] sent]. cbn [fst] in *.
      intros a' t'. cbn [tunnels]. unfold upd. destruct (N.eqb_spec a' a) as [->|]; [|apply T].
      intros E; inversion E; subst. exact HR.
  - unfold Model_C09.handle_outgoing. destruct (tunnels s a) as [t|] eqn:Et; [|exact T].
    destruct (is_authorized _ _ _); [|exact T].
    pose proof (R_out wg pkt payload wg_new wg_in wg_out wg_tick _ _ pl (T a t Et)) as HR.
    destruct (wg_out (tunn t) pl) as [w' q]. cbn [fst] in *.
    intros a' t'. cbn [tunnels]. unfold upd. destruct (N.eqb_spec a' a) as [->|]; [|apply T].
    intros E; inversion E; subst. exact HR.
  - intros a t. cbn [fst update_timers tunnels]. destruct (tunnels s a) as [t0|] eqn:Et; [|discriminate].
    pose proof (R_tick wg pkt payload wg_new wg_in wg_out wg_tick _ _ (T a t0 Et)) as HR.
    destruct (wg_tick (tunn t0)) as [w' dead]. destruct dead; [discriminate|].
    intros E; inversion E; subst. exact HR.
Qed.

Lemma run_tunnels_sound es : forall s,
  tunnels_sound wg pkt payload wg_new wg_in wg_out wg_tick s ->
  forall s1 e o, In (s1, e, o) (snd (run s es)) -> tunnels_sound wg pkt payload wg_new wg_in wg_out wg_tick s1.
Proof.
  induction es as [|e0 es IH]; intros s T s1 e o Hin.
  - destruct Hin.
  - rewrite run_cons in Hin. cbn [snd] in Hin. destruct Hin as [Heq|Hin].
    + inversion Heq; subst. exact T.
    + exact (IH _ (step_tunnels_sound s e0 T) s1 e o Hin).
Qed.

Lemma step_forward_authentic (authentic : pkt -> ident -> Prop) s a p id pl sent :
  wg_authenticates wg pkt payload wg_new wg_in wg_out wg_tick authentic ->
  tunnels_sound wg pkt payload wg_new wg_in wg_out wg_tick s ->
  snd (step s (EPacketIn a p)) = OIncoming a id (Some pl) sent ->
  authentic p id /\ is_authorized (reg s) (now s) id = true /\
  exists t, tunnels (fst (step s (EPacketIn a p))) a = Some t /\ peer_static t = id.
Proof.
  intros HA T. cbn [Model_C09.step]. unfold Model_C09.handle_incoming.
  destruct (tunnels s a) as [t|] eqn:Et.
  - destruct (is_authorized (reg s) (now s) (peer_static t)) eqn:A; [|discriminate].
    destruct (wg_in (tunn t) p) as [[w' r] sent'] eqn:Ew. cbn [fst snd]. unfold incoming_result.
    destruct r as [pl'|]; [|discriminate]. destruct (is_keepalive pl'); [discriminate|].
    intros E; inversion E; subst. refine (conj _ (conj A _)).
    + exact (HA _ _ _ _ _ _ (T a t Et) Ew).
    + eexists. cbn [tunnels]. unfold upd. rewrite N.eqb_refl. split; reflexivity.
  - destruct (hs_peer p) as [x|]; [|discriminate].
    destruct (is_authorized (reg s) (now s) x) eqn:A; [|discriminate].
    destruct (wg_in (wg_new x) p) as [[w' r] sent'] eqn:Ew. cbn [fst snd]. unfold incoming_result.
    destruct r as [pl'|]; [|discriminate]. destruct (is_keepalive pl'); [discriminate|].
    intros E; inversion E; subst. refine (conj _ (conj A _)).
    + exact (HA _ _ _ _ _ _ (R_new wg pkt payload wg_new wg_in wg_out wg_tick id) Ew).
    + eexists. cbn [tunnels]. unfold upd. rewrite N.eqb_refl. split; reflexivity.
Qed.

Lemma step_outgoing_endpoint s a pl id p :
  snd (step s (EPacketOut a pl)) = OEncrypted a id p ->
  exists t, tunnels s a = Some t /\ peer_static t = id /\ p = snd (wg_out (tunn t) pl) /\
            is_authorized (reg s) (now s) id = true.
Proof.
  cbn [Model_C09.step]. unfold Model_C09.handle_outgoing. destruct (tunnels s a) as [t|]; [|discriminate].
  destruct (is_authorized (reg s) (now s) (peer_static t)) eqn:A; [|discriminate].
  destruct (wg_out (tunn t) pl) as [w' q] eqn:Ew. cbn [snd]. intros E; inversion E; subst.
  exists t. refine (conj eq_refl (conj eq_refl (conj _ A))). rewrite Ew. reflexivity.
Qed.

Lemma run_entry_is_step es : forall s s1 e o,
  In (s1, e, o) (snd (run s es)) -> o = snd (step s1 e).
Proof.
  induction es as [|e0 es IH]; intros s s1 e o Hin; [destruct Hin|].
  rewrite run_cons in Hin. cbn [snd] in Hin. destruct Hin as [Heq|Hin]; [|exact (IH _ _ _ _ Hin)].
  inversion Heq; subst. reflexivity.
Qed.

End Server.

(** * the toy endpoint satisfies the WireGuard hypothesis *)
Lemma toy_reach_peer x w :
  Reach toy_wg toy_pkt (list N) toy_new toy_in toy_out toy_tick x w -> toy_peer w = x.
Proof.
  induction 1 as [|w p _ IH|w pl _ IH|w _ IH].
  - reflexivity.
  - unfold toy_in. destruct p as [f| |f b| |]; cbn [fst]; try exact IH.
    + destruct (f =? toy_peer w); exact IH.
    + destruct ((f =? toy_peer w) && toy_session w); exact IH.
  - unfold toy_out. destruct (toy_confirmed w); exact IH.
  - exact IH.
Qed.
Lemma toy_authenticates :
  wg_authenticates toy_wg toy_pkt (list N) toy_new toy_in toy_out toy_tick toy_authentic.
Proof.
  intros x w p w' pl sent HR E. apply toy_reach_peer in HR. unfold toy_in in E.
  destruct p as [f| |f b| |]; try (inversion E; fail).
  - destruct (f =? toy_peer w); inversion E.
  - destruct (N.eqb_spec f (toy_peer w)) as [->|]; cbn [andb] in E; [|inversion E].
    destruct (toy_session w); inversion E. exact HR.
Qed.
