(** C10 -- the property sentence as a predicate on parsed tokens.  Written from the sentence
    and from the SNAP token format, NOT from the verifier: literal constants (audience "snap",
    leeway 60 s, the claim lists of versions 0 and 1), no generated constant is used here.

    "The control plane accepts a bearer token if and only if it is a JWT signed with EdDSA by
    the configured (or JWKS-resolved) key, carries every claim its claims version requires in
    a supported version, names the SNAP audience whenever it names an audience, and is inside
    its validity window - not before its not-before time when it has one, not after its
    expiry, up to the verifier's fixed clock leeway." *)
From Sci Require Export Snap.Model_C10.
Local Open Scope string_scope. Local Open Scope N_scope.

Definition SPEC_LEEWAY : N := 60.
Definition SPEC_AUDIENCE : string := "snap".

Fixpoint list_eqb_N (x y : list N) : bool :=
  match x, y with
  | [], [] => true
  | a :: x', b :: y' => (a =? b) && list_eqb_N x' y'
  | _, _ => false
  end.

Section Spec.
Variable uuid_ok : string -> bool.
Variable pssid1_ok : string -> bool.

(** the value of claim [name] (JSON semantics: the last member of that name) *)
Definition claim (cl : claims) (name : string) (v : jval) : Prop := jget name cl = Some v.
Definition absent (cl : claims) (name : string) : Prop := jget name cl = None.

Definition is_u64 (cl : claims) (name : string) : Prop := exists n, claim cl name (JNum n) /\ n < 2 ^ 64.
Definition is_string (cl : claims) (name : string) : Prop := exists s, claim cl name (JStr s).

(** version 0 (legacy, no "ver"): pssid (UUID text), exp, jti *)
Definition v0_claims (cl : claims) : Prop :=
  absent cl "ver" /\
  (exists s, claim cl "pssid" (JStr s) /\ uuid_ok s = true) /\
  is_u64 cl "exp" /\ is_string cl "jti".

(** version 1: ver = 1, iss, aud, exp, nbf, iat, jti, pssid (base64url of 0x00 || uuid) *)
Definition v1_claims (cl : claims) : Prop :=
  claim cl "ver" (JNum 1) /\
  is_string cl "iss" /\ is_string cl "aud" /\
  is_u64 cl "exp" /\ is_u64 cl "nbf" /\ is_u64 cl "iat" /\ is_string cl "jti" /\
  (exists s, claim cl "pssid" (JStr s) /\ pssid1_ok s = true).

(** a JSON object whose registered members each occur once *)
Definition registered_once (cl : claims) : Prop :=
  forall n, In n ["exp"; "nbf"; "sub"; "iss"; "aud"] -> (jcount n cl <= 1)%nat.

(** RFC 7519 "sub" is a string; the verifier never looks at its value, but a "sub" member that
    is an array or an object makes the registered-claims reader fail, so "is a JWT" is read as
    including: "sub", when present, is a JSON scalar *)
Definition scalar (v : jval) : Prop :=
  match v with JArr _ | JObj _ => False | _ => True end.
Definition sub_scalar (cl : claims) : Prop := forall v, In ("sub", v) cl -> scalar v.

Definition supported_and_complete (cl : claims) : Prop :=
  (v0_claims cl \/ v1_claims cl) /\ registered_once cl /\ sub_scalar cl.

(** RFC 7519 shape of "aud": a string or an array of strings.  A token NAMES an audience when
    it has such a member ([null] counts as absent). *)
Inductive names_audience (cl : claims) : list string -> Prop :=
| NA_single s : claim cl "aud" (JStr s) -> names_audience cl [s]
| NA_many l ss : claim cl "aud" (JArr l) -> str_list l = Some ss -> names_audience cl ss.

Definition audience_ok (cl : claims) : Prop :=
  forall auds, names_audience cl auds -> In SPEC_AUDIENCE auds.

(** the numeric reading of a time claim: an integer below 2^64, or a non-negative finite
    float rounded to the nearest second *)
Inductive time_claim (cl : claims) (name : string) : N -> Prop :=
| TC_int n : claim cl name (JNum n) -> n < 2 ^ 64 -> time_claim cl name n
| TC_float r : claim cl name (JFloat (Some r)) -> time_claim cl name r.

(** inside the validity window at time [now], up to the leeway; a "nbf" member that is present
    must be a time *)
Definition in_window (now : N) (cl : claims) : Prop :=
  (exists e, time_claim cl "exp" e /\ now <= e + SPEC_LEEWAY) /\
  (absent cl "nbf" \/ exists b, time_claim cl "nbf" b /\ b <= now + SPEC_LEEWAY).

(** the key the verifier trusts for this token: the JWKS key named by "kid" when a JWKS store is
    configured and the token carries a kid, otherwise the configured static key *)
Definition trusted_key (V : verifier) (kid : option string) (k : key) : Prop :=
  match kid, jwks_store V with
  | Some id, Some store => store id = Some k
  | _, _ => k = static_key V
  end.

Definition SpecAcceptLoose (V : verifier) (now : N) (t : token) : Prop :=
  exists h cl,
    decode_header t = Some h /\ t_claims t = Some cl /\
    h_alg h = EdDSA /\
    (exists k, trusted_key V (h_kid h) k /\ t_sig t k = true) /\
    supported_and_complete cl /\
    audience_ok cl /\
    in_window now cl.

(** [SpecAcceptLoose] reads an "aud" member that is neither null, a string nor an array of
    strings as naming no audience (which is what jsonwebtoken does: TryParse::FailedToParse is
    ignored).  The property is taken in the STRICT reading [SpecAccept]: a token that carries
    an "aud" member must carry a well-formed one.  The difference is the known finding
    C10-malformed-aud (Findings.v), decided by [malformed_aud]. *)
Definition aud_well_formed (cl : claims) : Prop :=
  absent cl "aud" \/ claim cl "aud" JNull \/ exists auds, names_audience cl auds.
Definition SpecAccept (V : verifier) (now : N) (t : token) : Prop :=
  SpecAcceptLoose V now t /\ forall cl, t_claims t = Some cl -> aud_well_formed cl.

(** decidable class predicate used at run time *)
Definition malformed_aud (cl : claims) : bool :=
  match jget "aud" cl with
  | None | Some JNull | Some (JStr _) => false
  | Some (JArr l) => match str_list l with Some _ => false | None => true end
  | Some _ => true
  end.

(** executable form of [in_window]/[audience_ok] for the run-time oracle on the
    implementation's verdicts (Cases_C10) *)
Definition time_of (o : option jval) : option N :=
  match o with
  | Some (JNum n) => if n <? 2 ^ 64 then Some n else None
  | Some (JFloat (Some r)) => Some r
  | _ => None
  end.
Definition in_windowb (now : N) (cl : claims) : bool :=
  match time_of (jget "exp" cl) with
  | Some e => (now <=? e + SPEC_LEEWAY) &&
              match jget "nbf" cl with
              | None => true
              | Some _ => match time_of (jget "nbf" cl) with Some b => b <=? now + SPEC_LEEWAY | None => false end
              end
  | None => false
  end.
Definition audience_okb (cl : claims) : bool :=
  match jget "aud" cl with
  | Some (JStr s) => String.eqb s SPEC_AUDIENCE
  | Some (JArr l) => match str_list l with Some ss => existsb (String.eqb SPEC_AUDIENCE) ss | None => true end
  | _ => true
  end.


(** * Executable form (run-time oracle on the implementation's verdicts; proved equivalent to
      [SpecAccept] in Proofs_C10.specb_iff) *)
Definition is_u64b (cl : claims) (name : string) : bool :=
  match jget name cl with Some (JNum n) => n <? 2 ^ 64 | _ => false end.
Definition is_stringb (cl : claims) (name : string) : bool :=
  match jget name cl with Some (JStr _) => true | _ => false end.
Definition v0b (cl : claims) : bool :=
  match jget "ver" cl with None => true | Some _ => false end &&
  match jget "pssid" cl with Some (JStr s) => uuid_ok s | _ => false end &&
  is_u64b cl "exp" && is_stringb cl "jti".
Definition v1b (cl : claims) : bool :=
  match jget "ver" cl with Some (JNum 1) => true | _ => false end &&
  is_stringb cl "iss" && is_stringb cl "aud" && is_u64b cl "exp" && is_u64b cl "nbf" &&
  is_u64b cl "iat" && is_stringb cl "jti" &&
  match jget "pssid" cl with Some (JStr s) => pssid1_ok s | _ => false end.
Definition registered_onceb (cl : claims) : bool :=
  forallb (fun n => Nat.leb (jcount n cl) 1) ["exp"; "nbf"; "sub"; "iss"; "aud"].
Definition sub_scalarb (cl : claims) : bool :=
  forallb (fun m : string * jval =>
             negb (String.eqb (fst m) "sub") ||
             match snd m with JArr _ | JObj _ => false | _ => true end) cl.
Definition trusted_sigb (V : verifier) (t : token) (kid : option string) : bool :=
  match kid, jwks_store V with
  | Some id, Some store => match store id with Some k => t_sig t k | None => false end
  | _, _ => t_sig t (static_key V)
  end.
Definition spec_loose_b (V : verifier) (now : N) (t : token) : bool :=
  match decode_header t, t_claims t with
  | Some h, Some cl =>
    match h_alg h with EdDSA => true | _ => false end &&
    trusted_sigb V t (h_kid h) &&
    (v0b cl || v1b cl) && registered_onceb cl && sub_scalarb cl && audience_okb cl && in_windowb now cl
  | _, _ => false
  end.
Definition spec_acceptb (V : verifier) (now : N) (t : token) : bool :=
  spec_loose_b V now t &&
  match t_claims t with Some cl => negb (malformed_aud cl) | None => true end.

End Spec.

(** * The two text shapes behind the oracles [uuid_ok] / [pssid1_ok], written from the token
      format ("pssid" of v0: a UUID in simple, hyphenated, braced or URN form; of v1:
      base64url-no-pad of 0x00 followed by the 16 UUID bytes) and cross-checked against the
      oracle answers on every correspondence case (Cases_C10). *)
Definition chars (s : string) : list Ascii.ascii := list_ascii_of_string s.
Definition code (c : Ascii.ascii) : N := Ascii.N_of_ascii c.
Definition between (lo hi n : N) : bool := (lo <=? n) && (n <=? hi).
Definition is_hex (c : Ascii.ascii) : bool :=
  between 48 57 (code c) || between 97 102 (code c) || between 65 70 (code c).
Definition hyphenated (l : list Ascii.ascii) : bool :=
  Nat.eqb (List.length l) 36 &&
  forallb (fun ic : nat * Ascii.ascii =>
             if existsb (Nat.eqb (fst ic)) [8; 13; 18; 23]%nat then code (snd ic) =? 45 (* '-' *)
             else is_hex (snd ic))
          (combine (seq 0 36) l).
Definition uuid_shape (s : string) : bool :=
  let l := chars s in
  let n := List.length l in
  if Nat.eqb n 32 then forallb is_hex l
  else if Nat.eqb n 36 then hyphenated l
  else if Nat.eqb n 38 then
    match l with
    | c0 :: r => (code c0 =? 123) && (code (last r c0) =? 125) && hyphenated (removelast r)   (* { } *)
    | [] => false
    end
  else if Nat.eqb n 45 then
    list_eqb_N (map code (firstn 9 l)) [117; 114; 110; 58; 117; 117; 105; 100; 58]    (* urn:uuid: *)
    && hyphenated (skipn 9 l)
  else false.

(** index in the base64url alphabet *)
Definition b64url_idx (c : Ascii.ascii) : option N :=
  let n := code c in
  if between 65 90 n then Some (n - 65)
  else if between 97 122 n then Some (n - 97 + 26)
  else if between 48 57 n then Some (n - 48 + 52)
  else if n =? 45 then Some 62
  else if n =? 95 then Some 63
  else None.
(** 17 bytes = 136 bits = 22 full sextets + one sextet with 4 data bits and 2 zero bits; byte 0
    is zero: the first sextet is 0 and the top two bits of the second are 0 *)
Definition pssid1_shape (s : string) : bool :=
  let l := chars s in
  Nat.eqb (List.length l) 23 &&
  forallb (fun c => match b64url_idx c with Some _ => true | None => false end) l &&
  match l with
  | c0 :: c1 :: _ =>
    match b64url_idx c0, b64url_idx c1, b64url_idx (last l c0) with
    | Some i0, Some i1, Some i22 => (i0 =? 0) && (i1 <? 16) && (i22 mod 4 =? 0)
    | _, _, _ => false
    end
  | _ => false
  end.

(** tokens in the known-finding class C10-malformed-aud *)
Definition in_malformed_aud_class (t : token) : Prop :=
  exists cl, t_claims t = Some cl /\ malformed_aud cl = true.
