(** C10 -- lemmas.  Two halves: (A) acceptance by the model of the verifier is a conjunction of
    the checks it performs; with the SNAP validation profile (generated constants) that
    conjunction equals the executable specification [spec_loose_b]; (B) the executable
    specification reflects the declarative one ([SpecAcceptLoose], [SpecAccept]). *)
From Sci Require Import Snap.Model_C10 Snap.Spec_C10.
From Coq Require Import Arith PeanoNat Lia ZifyBool ZifyNat ZifyN.
Local Open Scope string_scope. Local Open Scope N_scope.

(** the profile build_validation() produces, as read by the translator; this is where a change
    of the Rust configuration (or of jsonwebtoken's defaults) breaks the proofs *)
Lemma snap_validation_eq :
  snap_validation = mkValidation [EdDSA] ["exp"; "pssid"] (Some ["snap"]) 60 0 true true true.
Proof. reflexivity. Qed.
Lemma v0_fields_eq : V0_FIELDS = [("pssid", FPssidV0); ("exp", FU64); ("jti", FStr)].
Proof. reflexivity. Qed.
Lemma v1_fields_eq :
  V1_FIELDS = [("ver", FU64); ("iss", FStr); ("aud", FStr); ("exp", FU64); ("nbf", FU64);
               ("iat", FU64); ("jti", FStr); ("pssid", FPssidV1)].
Proof. reflexivity. Qed.
Lemma pow64 : 2 ^ 64 = U64_LIM. Proof. reflexivity. Qed.
Lemma u64_lim_val : U64_LIM = 18446744073709551616. Proof. reflexivity. Qed.
Lemma i64_lim_val : I64_LIM = 9223372036854775808. Proof. reflexivity. Qed.
Lemma one_lt_lim : (1 <? U64_LIM) = true. Proof. reflexivity. Qed.

(** * generic *)
Lemma negb_existsb {A} (f : A -> bool) l : negb (existsb f l) = forallb (fun x => negb (f x)) l.
Proof. induction l as [|a l IH]; [reflexivity|]. cbn [existsb forallb]. rewrite negb_orb, IH. reflexivity. Qed.

Lemma jget_in name cl v : jget name cl = Some v -> In (name, v) cl.
Proof.
  induction cl as [|[n w] r IH]; cbn [jget]; [discriminate|].
  destruct (jget name r) as [x|] eqn:E.
  - intros H; inversion H; subst. right. apply IH. reflexivity.
  - destruct (String.eqb n name) eqn:En; [|discriminate].
    intros H; inversion H; subst. apply String.eqb_eq in En. subst. left. reflexivity.
Qed.

Lemma jget_none_not_in name cl : jget name cl = None -> forall v, ~ In (name, v) cl.
Proof.
  induction cl as [|[n w] r IH]; cbn [jget]; [intros _ v []|].
  destruct (jget name r) as [x|] eqn:E; [discriminate|].
  destruct (String.eqb n name) eqn:En; [discriminate|]. intros _ v [H|H].
  - inversion H; subst. rewrite String.eqb_refl in En. discriminate.
  - exact (IH eq_refl v H).
Qed.

Lemma jcount_zero name cl : jget name cl = None -> jcount name cl = 0%nat.
Proof.
  unfold jcount. induction cl as [|[n w] r IH]; cbn [jget filter fst]; [reflexivity|].
  destruct (jget name r) as [x|] eqn:E; [discriminate|].
  destruct (String.eqb n name) eqn:En; [discriminate|]. intros _. apply IH. reflexivity.
Qed.

(** a name that occurs at most once: its member IS its value *)
Lemma once_in_jget name cl v :
  (jcount name cl <= 1)%nat -> In (name, v) cl -> jget name cl = Some v.
Proof.
  unfold jcount. induction cl as [|[n w] r IH]; cbn [jget filter fst In]; [intros _ []|].
  intros Hc [H|H].
  - inversion H; subst. rewrite String.eqb_refl in *. cbn [List.length] in Hc.
    destruct (jget name r) as [x|] eqn:E.
    + apply jget_in in E.
      assert (In (name, x) (filter (fun p => String.eqb (fst p) name) r)) as Hin
        by (apply filter_In; split; [exact E|apply String.eqb_refl]).
      destruct (filter (fun p => String.eqb (fst p) name) r); [destruct Hin|cbn [List.length] in Hc; lia].
    + reflexivity.
  - destruct (String.eqb n name) eqn:En.
    + cbn [List.length] in Hc.
      assert (In (name, v) (filter (fun p => String.eqb (fst p) name) r)) as Hin
        by (apply filter_In; split; [exact H|apply String.eqb_refl]).
      destruct (filter (fun p => String.eqb (fst p) name) r); [destruct Hin|cbn [List.length] in Hc; lia].
    + rewrite (IH Hc H). reflexivity.
Qed.

Lemma str_eqb_sym a b : String.eqb a b = String.eqb b a.
Proof.
  destruct (String.eqb a b) eqn:E.
  - apply String.eqb_eq in E. subst. symmetry. apply String.eqb_refl.
  - destruct (String.eqb b a) eqn:E2; [|reflexivity]. apply String.eqb_eq in E2. subst.
    rewrite String.eqb_refl in E. discriminate.
Qed.

(** * (A) the model's acceptance as a conjunction of its checks *)
Section A.
Variable uuid_ok pssid1_ok : string -> bool.
Notation verify := (verify uuid_ok pssid1_ok).
Notation any_claims := (any_claims uuid_ok pssid1_ok).

Lemma verify_accept_iff V now t c :
  verify V now t = Accept c <->
  exists h k cl,
    decode_header t = Some h /\ select_key V h = Some k /\
    existsb (alg_eqb (h_alg h)) (v_algs (vvalidation V)) = true /\
    forallb (fun a => family_eqb (alg_family (h_alg h)) (alg_family a)) (v_algs (vvalidation V)) = true /\
    t_sig t k = true /\ t_claims t = Some cl /\ any_claims cl = Some c /\
    dup_spec_claim cl = false /\ unreadable_spec_claim cl = false /\
    validate (vvalidation V) now cl = VOk.
Proof.
  unfold Model_C10.verify. split.
  - destruct (decode_header t) as [h|] eqn:D1; [|discriminate].
    destruct (select_key V h) as [k|] eqn:D2; [|discriminate].
    destruct (existsb _ _) eqn:E1; cbn [negb]; [|discriminate].
    destruct (forallb _ _) eqn:E2; cbn [negb]; [|discriminate].
    destruct (t_sig t k) eqn:E3; cbn [negb]; [|discriminate].
    destruct (t_claims t) as [cl|] eqn:D6; [|discriminate].
    destruct (any_claims cl) as [c'|] eqn:E4; [|discriminate].
    destruct (dup_spec_claim cl) eqn:E5; cbn [orb]; [discriminate|].
    destruct (unreadable_spec_claim cl) eqn:E6; [discriminate|].
    destruct (validate _ now cl) eqn:E7; try discriminate.
    intros H; inversion H; subst. exists h, k, cl. repeat split; try assumption; reflexivity.
  - intros (h & k & cl & H1 & H2 & H3 & H4 & H5 & H6 & H7 & H8 & H9 & H10).
    rewrite H1, H2, H3, H4, H5, H6, H7, H8, H9, H10. reflexivity.
Qed.

Lemma alg_is_eddsa a :
  existsb (alg_eqb a) [EdDSA] && forallb (fun b => family_eqb (alg_family a) (alg_family b)) [EdDSA]
  = match a with EdDSA => true | _ => false end.
Proof. destruct a; reflexivity. Qed.

(** ** AnyClaims *)
Lemma any_claims_v0v1 cl :
  (exists c, any_claims cl = Some c) <-> v0b uuid_ok cl || v1b pssid1_ok cl = true.
Proof.
  unfold Model_C10.any_claims, v0b, v1b, is_u64b, is_stringb. rewrite v0_fields_eq, v1_fields_eq, pow64.
  unfold fields_ok. cbn [forallb has_type].
  destruct (jget "ver" cl) as [ver|].
  - cbn [andb orb]. unfold as_u64.
    destruct ver as [| | n | | | | |]; try (split; [intros [c H]; discriminate|discriminate]).
    destruct (n <? U64_LIM) eqn:En.
    + destruct n as [|[p|p|]]; try (split; [intros [c H]; discriminate|discriminate]).
      destruct (jget "iss" cl) as [[]|]; cbn [andb]; try (split; [intros [c H]; discriminate|discriminate]).
      destruct (jget "aud" cl) as [[]|]; cbn [andb]; try (split; [intros [c H]; discriminate|discriminate]).
      destruct (jget "exp" cl) as [[| |e| | | | |]|]; cbn [andb]; try (split; [intros [c H]; discriminate|discriminate]).
      destruct (e <? U64_LIM); cbn [andb]; try (split; [intros [c H]; discriminate|discriminate]).
      destruct (jget "nbf" cl) as [[| |b| | | | |]|]; cbn [andb]; try (split; [intros [c H]; discriminate|discriminate]).
      destruct (b <? U64_LIM); cbn [andb]; try (split; [intros [c H]; discriminate|discriminate]).
      destruct (jget "iat" cl) as [[| |i| | | | |]|]; cbn [andb]; try (split; [intros [c H]; discriminate|discriminate]).
      destruct (i <? U64_LIM); cbn [andb]; try (split; [intros [c H]; discriminate|discriminate]).
      destruct (jget "jti" cl) as [[]|]; cbn [andb]; try (split; [intros [c H]; discriminate|discriminate]).
      destruct (jget "pssid" cl) as [[]|]; cbn [andb]; try (split; [intros [c H]; discriminate|discriminate]).
      rewrite andb_true_r. destruct (pssid1_ok s2); (split; [intros [c H]; try discriminate; reflexivity|intros H; try discriminate; eexists; reflexivity]).
    + split; [intros [c H]; discriminate|]. destruct n as [|[p|p|]]; try discriminate.
  - cbn [andb orb]. rewrite orb_false_r, andb_true_r.
    destruct (jget "pssid" cl) as [[]|]; cbn [andb]; try (split; [intros [c H]; discriminate|discriminate]).
    destruct (uuid_ok s); cbn [andb]; try (split; [intros [c H]; discriminate|discriminate]).
    destruct (jget "exp" cl) as [[| |e| | | | |]|]; cbn [andb]; try (split; [intros [c H]; discriminate|discriminate]).
    destruct (e <? U64_LIM); cbn [andb]; try (split; [intros [c H]; discriminate|discriminate]).
    destruct (jget "jti" cl) as [[]|]; cbn [andb]; try (split; [intros [c H]; discriminate|discriminate]).
    split; [reflexivity|intros _; eexists; reflexivity].
Qed.

(** an accepted claims set has an integer "exp" below 2^64, which is what is returned *)
Lemma any_claims_exp cl c :
  any_claims cl = Some c -> jget "exp" cl = Some (JNum (c_exp c)) /\ c_exp c < U64_LIM /\ (c_ver c = 0 \/ c_ver c = 1).
Proof.
  unfold Model_C10.any_claims. rewrite v0_fields_eq, v1_fields_eq. unfold fields_ok, mk_claims, get_num.
  cbn [forallb has_type].
  destruct (jget "ver" cl) as [ver|].
  - destruct (as_u64 ver) as [[|[p|p|]]|]; try discriminate.
    destruct (match ver with JNum n => n <? U64_LIM | _ => false end); cbn [andb]; try discriminate.
    destruct (jget "iss" cl) as [[]|]; cbn [andb]; try discriminate.
    destruct (jget "aud" cl) as [[]|]; cbn [andb]; try discriminate.
    destruct (jget "exp" cl) as [[| |e| | | | |]|]; cbn [andb]; try discriminate.
    destruct (e <? U64_LIM) eqn:Ee; cbn [andb]; try discriminate.
    match goal with |- (if ?b then _ else _) = _ -> _ => destruct b; [|discriminate] end.
    intros H; inversion H; subst; cbn. split; [reflexivity|]. split; [lia|right; reflexivity].
  - destruct (jget "pssid" cl) as [[]|]; cbn [andb]; try discriminate.
    destruct (uuid_ok s); cbn [andb]; try discriminate.
    destruct (jget "exp" cl) as [[| |e| | | | |]|]; cbn [andb]; try discriminate.
    destruct (e <? U64_LIM) eqn:Ee; cbn [andb]; try discriminate.
    match goal with |- (if ?b then _ else _) = _ -> _ => destruct b; [|discriminate] end.
    intros H; inversion H; subst; cbn. split; [reflexivity|]. split; [lia|left; reflexivity].
Qed.

(** ** validate, with the SNAP profile *)
Lemma validate_aud_snap cl :
  validate_aud snap_validation cl = VOk <-> audience_okb cl = true.
Proof.
  rewrite snap_validation_eq. unfold validate_aud, audience_okb, tp_aud, SPEC_AUDIENCE.
  cbn [v_validate_aud v_aud negb].
  destruct (jget "aud" cl) as [[| | | | |s|l|]|]; try (split; reflexivity).
  - unfold str_in. cbn [existsb]. rewrite orb_false_r. destruct (String.eqb s "snap"); split; (reflexivity || discriminate).
  - destruct (str_list l) as [ss|]; [|split; reflexivity].
    unfold intersects, str_in. cbn [existsb].
    assert (existsb (fun s => String.eqb s "snap" || false) ss = existsb (String.eqb "snap") ss) as ->.
    { induction ss as [|a r IH]; [reflexivity|]. cbn [existsb]. rewrite IH, orb_false_r, (str_eqb_sym a "snap"). reflexivity. }
    destruct (existsb _ ss); split; (reflexivity || discriminate).
Qed.

Lemma validate_snap now cl e :
  60 <= now -> now < I64_LIM ->
  jget "exp" cl = Some (JNum e) -> e < U64_LIM ->
  (validate snap_validation now cl = VOk <-> in_windowb now cl && audience_okb cl = true) /\
  (forall s, validate snap_validation now cl <> VPanic s).
Proof.
  intros Hlo Hhi He Hlt. pose proof (validate_aud_snap cl) as HA.
  assert (forall s, validate_aud snap_validation cl <> VPanic s) as HAP.
  { intros s. rewrite snap_validation_eq. unfold validate_aud. cbn [v_validate_aud v_aud negb].
    destruct (tp_aud _) as [[a|a]| |]; try discriminate.
    - destruct (str_in _ _); discriminate.
    - destruct (intersects _ _); discriminate. }
  set (A := validate_aud snap_validation cl) in *.
  assert (v_validate_exp snap_validation = true) as F1 by reflexivity.
  assert (v_validate_nbf snap_validation = true) as F2 by reflexivity.
  assert (v_leeway snap_validation = 60) as F3 by reflexivity.
  assert (v_reject_lt snap_validation = 0) as F4 by reflexivity.
  assert (v_required snap_validation = ["exp"; "pssid"]) as F5 by reflexivity.
  unfold validate, validate_time, validate_nbf. fold A. rewrite F1, F2, F3, F4, F5.
  unfold in_windowb, SPEC_LEEWAY. rewrite !He.
  cbn [existsb present String.eqb Ascii.eqb Bool.eqb tp_num time_of]. rewrite ?He. cbn [tp_num]. rewrite !pow64.
  pose proof u64_lim_val as HU. pose proof i64_lim_val as HI.
  assert (e <? U64_LIM = true) as -> by lia.
  cbn [is_parsed is_failed negb orb andb].
  assert (e <? 0 = false) as -> by lia.
  assert (now <? 60 = false) as -> by lia.
  assert (U64_LIM <=? now + 60 = false) as -> by lia.
  destruct (e - 0 <? now - 60) eqn:E1.
  { assert (now <=? e + 60 = false) as -> by lia. cbn [andb].
    destruct (is_failed _); (split; [split; discriminate|discriminate]). }
  assert (now <=? e + 60 = true) as -> by lia. cbn [andb].
  destruct (jget "nbf" cl) as [v|] eqn:En.
  - destruct v as [| |n| |[r|]| | |]; cbn [tp_num is_failed time_of]; rewrite ?pow64.
    all: try (split; [split; discriminate|discriminate]).
    + destruct (n <? U64_LIM) eqn:Enn; cbn [is_failed].
      * destruct (now + 60 <? n) eqn:E2.
        { assert (n <=? now + 60 = false) as -> by lia. split; [split; discriminate|discriminate]. }
        assert (n <=? now + 60 = true) as -> by lia. split; [exact HA|exact HAP].
      * split; [split; discriminate|discriminate].
    + destruct (now + 60 <? r) eqn:E2.
      { assert (r <=? now + 60 = false) as -> by lia. split; [split; discriminate|discriminate]. }
      assert (r <=? now + 60 = true) as -> by lia. split; [exact HA|exact HAP].
  - cbn [tp_num is_failed]. split; [exact HA|exact HAP].
Qed.

(** ** duplicates and unreadable members *)
Lemma dup_registered cl : negb (dup_spec_claim cl) = registered_onceb cl.
Proof.
  unfold dup_spec_claim, registered_onceb, spec_claim_names. rewrite negb_existsb.
  cbn [forallb].
  repeat match goal with |- context [jcount ?n cl] => destruct (jcount n cl) as [|[|?]] end; reflexivity.
Qed.

Lemma unreadable_sub cl :
  unreadable_spec_claim cl = false -> sub_scalarb cl = true.
Proof.
  unfold unreadable_spec_claim, sub_scalarb. induction cl as [|[n v] r IH]; [reflexivity|].
  cbn [existsb forallb fst snd]. intros H. apply orb_false_iff in H as [H1 H2]. rewrite (IH H2), andb_true_r.
  unfold breaks_stream in H1. destruct (String.eqb n "sub") eqn:Es; [|reflexivity].
  apply String.eqb_eq in Es. subst n. cbn in H1. destruct v; try reflexivity; discriminate.
Qed.

(** with every registered name occurring once, an "exp"/"nbf" member that would break the
    reader is the value the window test sees, and that test refuses it *)
Lemma readable_when_spec now cl :
  registered_onceb cl = true -> sub_scalarb cl = true -> in_windowb now cl = true ->
  unreadable_spec_claim cl = false.
Proof.
  intros Hreg Hsub Hwin. unfold unreadable_spec_claim.
  destruct (existsb breaks_stream cl) eqn:E; [|reflexivity]. exfalso.
  apply existsb_exists in E as ([n v] & Hin & Hb).
  unfold registered_onceb in Hreg. rewrite forallb_forall in Hreg.
  unfold breaks_stream in Hb.
  destruct (String.eqb n "exp") eqn:E1.
  { apply String.eqb_eq in E1. subst n. cbn [orb] in Hb.
    assert (jget "exp" cl = Some v) as G.
    { apply once_in_jget; [|exact Hin]. apply Nat.leb_le. apply Hreg. cbn; tauto. }
    unfold in_windowb in Hwin. rewrite G in Hwin. destruct v as [| | | | | |[|]|[|]]; discriminate. }
  destruct (String.eqb n "nbf") eqn:E2.
  { apply String.eqb_eq in E2. subst n. cbn [orb] in Hb.
    assert (jget "nbf" cl = Some v) as G.
    { apply once_in_jget; [|exact Hin]. apply Nat.leb_le. apply Hreg. cbn; tauto. }
    unfold in_windowb in Hwin. rewrite G in Hwin.
    destruct (time_of (jget "exp" cl)); [|discriminate].
    destruct v as [| | | | | |[|]|[|]]; try discriminate; cbn in Hwin; rewrite andb_false_r in Hwin; discriminate. }
  cbn [orb] in Hb. destruct (String.eqb n "sub") eqn:E3; [|discriminate].
  unfold sub_scalarb in Hsub. rewrite forallb_forall in Hsub. specialize (Hsub _ Hin).
  cbn [fst snd] in Hsub. rewrite E3 in Hsub. cbn [negb orb] in Hsub.
  destruct v; discriminate.
Qed.

(** ** the model accepts exactly when the executable specification does *)
Lemma select_key_trusted V t h :
  (exists k, select_key V h = Some k /\ t_sig t k = true) <-> trusted_sigb V t (h_kid h) = true.
Proof.
  unfold select_key, trusted_sigb. destruct (h_kid h) as [kid|], (jwks_store V) as [st|].
  - destruct (st kid) as [k|].
    + split; [intros (k' & H & S); inversion H; subst; exact S|intros S; exists k; split; [reflexivity|exact S]].
    + split; [intros (k' & H & _); discriminate|discriminate].
  - split; [intros (k' & H & S); inversion H; subst; exact S|intros S; eexists; split; [reflexivity|exact S]].
  - split; [intros (k' & H & S); inversion H; subst; exact S|intros S; eexists; split; [reflexivity|exact S]].
  - split; [intros (k' & H & S); inversion H; subst; exact S|intros S; eexists; split; [reflexivity|exact S]].
Qed.

Lemma verify_iff_specb V now t :
  vvalidation V = snap_validation -> 60 <= now -> now < I64_LIM ->
  (exists c, verify V now t = Accept c) <-> spec_loose_b uuid_ok pssid1_ok V now t = true.
Proof.
  intros HV Hlo Hhi. unfold spec_loose_b. split.
  - intros [c H]. apply verify_accept_iff in H as (h & k & cl & H1 & H2 & H3 & H4 & H5 & H6 & H7 & H8 & H9 & H10).
    rewrite H1, H6. rewrite HV in *.
    pose proof (alg_is_eddsa (h_alg h)) as HA.
    rewrite snap_validation_eq in H3, H4. cbn [v_algs] in H3, H4. rewrite H3, H4 in HA. cbn [andb] in HA. rewrite <- HA.
    assert (trusted_sigb V t (h_kid h) = true) as -> by (apply select_key_trusted; exists k; split; assumption).
    assert (v0b uuid_ok cl || v1b pssid1_ok cl = true) as -> by (apply any_claims_v0v1; exists c; exact H7).
    rewrite <- dup_registered, H8. rewrite (unreadable_sub cl H9). cbn [andb negb].
    destruct (any_claims_exp cl c H7) as (He & Hlt & _).
    destruct (validate_snap now cl (c_exp c) Hlo Hhi He Hlt) as [W _].
    apply W in H10. apply andb_true_iff in H10 as [-> ->]. reflexivity.
  - destruct (decode_header t) as [h|] eqn:H1; [|discriminate].
    destruct (t_claims t) as [cl|] eqn:H6; [|discriminate].
    intros H. repeat (apply andb_true_iff in H; destruct H as [H ?]).
    rename H0 into Hwin, H1 into H1', H2 into Haud, H3 into Hsub, H4 into Hreg, H5 into Hv, H6 into H6', H7 into Hsig.
    apply any_claims_v0v1 in Hv as [c Hc]. exists c. apply verify_accept_iff.
    apply select_key_trusted in Hsig as (k & Hk & Hs).
    exists h, k, cl. rewrite HV.
    pose proof (alg_is_eddsa (h_alg h)) as HA. rewrite H in HA. apply andb_true_iff in HA as [HA1 HA2].
    destruct (any_claims_exp cl c Hc) as (He & Hlt & _).
    destruct (validate_snap now cl (c_exp c) Hlo Hhi He Hlt) as [W _].
    refine (conj H1' (conj Hk (conj _ (conj _ (conj Hs (conj H6' (conj Hc (conj _ (conj _ _))))))))).
    + rewrite snap_validation_eq. exact HA1.
    + rewrite snap_validation_eq. exact HA2.
    + pose proof (dup_registered cl) as D. rewrite Hreg in D. destruct (dup_spec_claim cl); [discriminate|reflexivity].
    + exact (readable_when_spec now cl Hreg Hsub Hwin).
    + apply W. rewrite Hwin, Haud. reflexivity.
Qed.

Lemma verify_no_panic V now t s :
  vvalidation V = snap_validation -> 60 <= now -> now < I64_LIM -> verify V now t <> Panicked s.
Proof.
  intros HV Hlo Hhi. unfold Model_C10.verify.
  destruct (decode_header t) as [h|]; [|discriminate].
  destruct (select_key V h) as [k|]; [|discriminate].
  destruct (negb _); [discriminate|]. destruct (negb _); [discriminate|]. destruct (negb _); [discriminate|].
  destruct (t_claims t) as [cl|]; [|discriminate].
  destruct (any_claims cl) as [c|] eqn:Hc; [|discriminate].
  destruct (_ || _); [discriminate|].
  destruct (any_claims_exp cl c Hc) as (He & Hlt & _). rewrite HV.
  destruct (validate_snap now cl (c_exp c) Hlo Hhi He Hlt) as [_ P].
  destruct (validate snap_validation now cl) eqn:E; try discriminate. exfalso. exact (P _ eq_refl).
Qed.

(** ** granted lifetime *)
Lemma granted_le V now now2 t c cl l :
  verify V now t = Accept c -> t_claims t = Some cl ->
  granted_lifetime now2 c = Granted l ->
  jget "exp" cl = Some (JNum (c_exp c)) /\ now2 + l = c_exp c.
Proof.
  intros H Hcl G. apply verify_accept_iff in H as (h & k & cl' & _ & _ & _ & _ & _ & H6 & H7 & _).
  rewrite Hcl in H6. inversion H6; subst cl'.
  destruct (any_claims_exp cl c H7) as (He & _ & _). split; [exact He|].
  unfold granted_lifetime in G. destruct (I64_LIM <=? c_exp c); [discriminate|].
  destruct (c_exp c <? now2) eqn:E; [discriminate|]. inversion G. lia.
Qed.

End A.

(** * (B) the executable specification reflects the declarative one *)
Section B.
Variable uuid_ok pssid1_ok : string -> bool.

Lemma is_u64_iff cl n : is_u64b cl n = true <-> is_u64 cl n.
Proof.
  unfold is_u64b, is_u64, claim. destruct (jget n cl) as [[| |k| | | | |]|];
    try (split; [discriminate|intros (k' & H & _); discriminate]).
  split.
  - intros H. exists k. split; [reflexivity|lia].
  - intros (k' & H & L). inversion H; subst. lia.
Qed.
Lemma is_string_iff cl n : is_stringb cl n = true <-> is_string cl n.
Proof.
  unfold is_stringb, is_string, claim. destruct (jget n cl) as [[| | | | |s| |]|];
    try (split; [discriminate|intros (k' & H); discriminate]).
  split; [intros _; exists s; reflexivity|reflexivity].
Qed.

Lemma v0_iff cl : v0b uuid_ok cl = true <-> v0_claims uuid_ok cl.
Proof.
  unfold v0b, v0_claims, absent, claim. rewrite !andb_true_iff, is_u64_iff, is_string_iff.
  split.
  - intros (((H1 & H2) & H3) & H4). destruct (jget "ver" cl); [discriminate|].
    destruct (jget "pssid" cl) as [[| | | | |s| |]|]; try discriminate.
    refine (conj eq_refl (conj _ (conj H3 H4))). exists s. split; [reflexivity|exact H2].
  - intros (H1 & (s & H2 & H2') & H3 & H4). rewrite H1, H2. tauto.
Qed.
Lemma v1_iff cl : v1b pssid1_ok cl = true <-> v1_claims pssid1_ok cl.
Proof.
  unfold v1b, v1_claims, claim. rewrite !andb_true_iff, !is_u64_iff, !is_string_iff.
  split.
  - intros (((((((H1 & H2) & H3) & H4) & H5) & H6) & H7) & H8).
    destruct (jget "ver" cl) as [[| |[|[p|p|]]| | | | |]|]; try discriminate.
    destruct (jget "pssid" cl) as [[| | | | |s| |]|]; try discriminate.
    refine (conj eq_refl (conj H2 (conj H3 (conj H4 (conj H5 (conj H6 (conj H7 _))))))).
    exists s. split; [reflexivity|exact H8].
  - intros (H1 & H2 & H3 & H4 & H5 & H6 & H7 & (s & H8 & H8')). rewrite H1, H8. tauto.
Qed.

Lemma registered_once_iff cl : registered_onceb cl = true <-> registered_once cl.
Proof.
  unfold registered_onceb, registered_once. rewrite forallb_forall.
  split; intros H n Hn; [apply Nat.leb_le|apply Nat.leb_le]; apply H; exact Hn.
Qed.

Lemma sub_scalar_iff cl : sub_scalarb cl = true <-> sub_scalar cl.
Proof.
  unfold sub_scalarb, sub_scalar. rewrite forallb_forall. split.
  - intros H v Hin. specialize (H _ Hin). cbn [fst snd] in H. rewrite String.eqb_refl in H.
    cbn [negb orb] in H. destruct v; try exact I; discriminate.
  - intros H [n v] Hin. cbn [fst snd]. destruct (String.eqb n "sub") eqn:E; [|reflexivity].
    apply String.eqb_eq in E. subst n. specialize (H v Hin). cbn [negb orb]. destruct v; try reflexivity; destruct H.
Qed.

Lemma existsb_str_in a ss : existsb (String.eqb a) ss = true <-> In a ss.
Proof.
  rewrite existsb_exists. split.
  - intros (x & Hin & E). apply String.eqb_eq in E. subst. exact Hin.
  - intros H. exists a. split; [exact H|apply String.eqb_refl].
Qed.

Lemma audience_ok_iff cl : audience_okb cl = true <-> audience_ok cl.
Proof.
  unfold audience_okb, audience_ok, SPEC_AUDIENCE. split.
  - intros H auds Hn. destruct Hn as [s Hc|l ss Hc Hs]; unfold claim in Hc; rewrite Hc in H.
    + apply String.eqb_eq in H. subst. left. reflexivity.
    + rewrite Hs in H. apply existsb_str_in. exact H.
  - intros H. destruct (jget "aud" cl) as [[| | | | |s|l|]|] eqn:E; try reflexivity.
    + specialize (H [s] (NA_single cl s E)). destruct H as [H|[]]. subst. reflexivity.
    + destruct (str_list l) as [ss|] eqn:Es; [|reflexivity].
      apply existsb_str_in. exact (H ss (NA_many cl l ss E Es)).
Qed.

Lemma time_of_iff cl n v : time_of (jget n cl) = Some v <-> time_claim cl n v.
Proof.
  unfold time_of. rewrite pow64. split.
  - destruct (jget n cl) as [[| |k| |[r|]| | |]|] eqn:E; try discriminate.
    + destruct (k <? U64_LIM) eqn:L; [|discriminate]. intros H; inversion H; subst.
      apply TC_int; [exact E|rewrite pow64; lia].
    + intros H; inversion H; subst. apply TC_float. exact E.
  - intros [k Hc L|r Hc]; unfold claim in Hc; rewrite Hc.
    + rewrite pow64 in L. assert (k <? U64_LIM = true) as -> by lia. reflexivity.
    + reflexivity.
Qed.

Lemma in_window_iff now cl : in_windowb now cl = true <-> in_window now cl.
Proof.
  unfold in_windowb, in_window, absent, SPEC_LEEWAY. split.
  - destruct (time_of (jget "exp" cl)) as [e|] eqn:Ee; [|discriminate].
    intros H. apply andb_true_iff in H as [H1 H2]. split.
    + exists e. split; [apply time_of_iff; exact Ee|lia].
    + destruct (jget "nbf" cl) as [v|] eqn:En; [|left; reflexivity]. right.
      destruct (time_of (Some v)) as [b|] eqn:Eb; [|discriminate].
      exists b. split; [apply time_of_iff; rewrite En; exact Eb|lia].
  - intros ((e & He & Hle) & Hn). apply time_of_iff in He. rewrite He.
    assert (now <=? e + 60 = true) as -> by lia. cbn [andb].
    destruct Hn as [Hn|(b & Hb & Hle2)].
    + rewrite Hn. reflexivity.
    + apply time_of_iff in Hb. destruct (jget "nbf" cl) as [v|] eqn:En.
      * rewrite Hb. lia.
      * reflexivity.
Qed.

Lemma trusted_iff V t kid :
  trusted_sigb V t kid = true <-> exists k, trusted_key V kid k /\ t_sig t k = true.
Proof.
  unfold trusted_sigb, trusted_key. destruct kid as [id|], (jwks_store V) as [st|].
  - destruct (st id) as [k|].
    + split; [intros S; exists k; split; [reflexivity|exact S]|intros (k' & H & S); inversion H; subst; exact S].
    + split; [discriminate|intros (k' & H & _); discriminate].
  - split; [intros S; eexists; split; [reflexivity|exact S]|intros (k' & H & S); subst; exact S].
  - split; [intros S; eexists; split; [reflexivity|exact S]|intros (k' & H & S); subst; exact S].
  - split; [intros S; eexists; split; [reflexivity|exact S]|intros (k' & H & S); subst; exact S].
Qed.

Lemma spec_loose_iff V now t :
  spec_loose_b uuid_ok pssid1_ok V now t = true <-> SpecAcceptLoose uuid_ok pssid1_ok V now t.
Proof.
  unfold spec_loose_b, SpecAcceptLoose, supported_and_complete. split.
  - destruct (decode_header t) as [h|]; [|discriminate]. destruct (t_claims t) as [cl|]; [|discriminate].
    intros H. repeat (apply andb_true_iff in H; destruct H as [H ?]).
    exists h, cl. refine (conj eq_refl (conj eq_refl (conj _ (conj _ (conj (conj _ (conj _ _)) (conj _ _)))))).
    + destruct (h_alg h); try discriminate. reflexivity.
    + apply trusted_iff. assumption.
    + apply orb_true_iff in H4 as [H4|H4]; [left; apply v0_iff|right; apply v1_iff]; exact H4.
    + apply registered_once_iff. assumption.
    + apply sub_scalar_iff. assumption.
    + apply audience_ok_iff. assumption.
    + apply in_window_iff. assumption.
  - intros (h & cl & -> & -> & Ha & Hk & (Hv & Hr & Hs) & Hau & Hw).
    rewrite Ha. apply trusted_iff in Hk. rewrite Hk.
    apply registered_once_iff in Hr. apply sub_scalar_iff in Hs. apply audience_ok_iff in Hau.
    apply in_window_iff in Hw. rewrite Hr, Hs, Hau, Hw.
    assert (v0b uuid_ok cl || v1b pssid1_ok cl = true) as ->; [|reflexivity].
    apply orb_true_iff. destruct Hv as [Hv|Hv]; [left; apply v0_iff|right; apply v1_iff]; exact Hv.
Qed.

Lemma malformed_aud_iff cl : malformed_aud cl = false <-> aud_well_formed cl.
Proof.
  unfold malformed_aud, aud_well_formed, absent, claim. split.
  - destruct (jget "aud" cl) as [[| | | | |s|l|]|] eqn:E; try discriminate.
    + intros _. right. left. reflexivity.
    + intros _. right. right. exists [s]. apply NA_single. exact E.
    + destruct (str_list l) as [ss|] eqn:Es; [|discriminate]. intros _. right. right. exists ss.
      exact (NA_many cl l ss E Es).
    + intros _. left. reflexivity.
  - intros [H|[H|(auds & H)]].
    + rewrite H. reflexivity.
    + rewrite H. reflexivity.
    + destruct H as [s Hc|l ss Hc Hs]; unfold claim in Hc; rewrite Hc; [reflexivity|rewrite Hs; reflexivity].
Qed.

Lemma specb_iff V now t :
  spec_acceptb uuid_ok pssid1_ok V now t = true <-> SpecAccept uuid_ok pssid1_ok V now t.
Proof.
  unfold spec_acceptb, SpecAccept. rewrite andb_true_iff, spec_loose_iff. split.
  - intros [H1 H2]. split; [exact H1|]. intros cl Hcl. rewrite Hcl in H2. apply malformed_aud_iff.
    destruct (malformed_aud cl); [discriminate|reflexivity].
  - intros [H1 H2]. split; [exact H1|]. destruct (t_claims t) as [cl|]; [|reflexivity].
    specialize (H2 cl eq_refl). apply malformed_aud_iff in H2. rewrite H2. reflexivity.
Qed.

End B.

(** example inputs for the non-vacuity examples of Props_C10 *)
Definition ex_tok (nbf exp : N) : token :=
  mkToken (Some (mkRawHeader (Some EdDSA) HAbsent (HStr "JWT")))
          (Some [("ver", JNum 1); ("iss", JStr "ssr"); ("aud", JStr "snap"); ("exp", JNum exp);
                 ("nbf", JNum nbf); ("iat", JNum nbf); ("jti", JStr "j"); ("pssid", JStr "p")])
          (fun k => k =? 7).
Definition ex_ver : verifier := mkVerifier 7 None snap_validation.
