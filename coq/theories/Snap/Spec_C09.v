(** C09 -- the property sentence as predicates over registries, histories and traces.
    Independent of how the registry stores things: [auth_spec] decides authorisation from the
    HISTORY of registrations alone (latest registration of the identity, not superseded under
    its key, expiry strictly in the future). *)
From Sci Require Export Snap.Model_C09.
Local Open Scope N_scope.

(** * registry shape: "at most one identity per token key and one key per identity" *)
Definition one_key_per_identity (r : registry) : Prop :=
  forall k1 k2 id, associations r k1 = Some id -> associations r k2 = Some id -> k1 = k2.
(** one identity per key holds by construction: [associations] is a map from keys *)
Definition sessions_have_keys (r : registry) : Prop :=
  forall id e, sessions r id = Some e -> exists k, associations r k = Some id.
Definition keys_have_sessions (r : registry) : Prop :=
  forall k id, associations r k = Some id -> exists e, sessions r id = Some e.
Definition RegInv (r : registry) : Prop :=
  one_key_per_identity r /\ sessions_have_keys r /\ keys_have_sessions r.

(** * authorisation from the history *)
(** registrations so far, most recent first: (key, identity, expiry = time of registration + lifetime) *)
Definition reg_history := list (key * ident * time).

Definition supersedes (k0 : key) (id : ident) (later : key * ident) : bool :=
  (fst later =? k0) && negb (snd later =? id).

(** expiry of the latest registration of [id], unless a later registration put a different
    identity under the same key ([later] = the registrations after the point reached) *)
Fixpoint auth_scan (rh : reg_history) (id : ident) (later : list (key * ident)) : option time :=
  match rh with
  | [] => None
  | (k, i, e) :: older =>
    if i =? id then (if existsb (supersedes k id) later then None else Some e)
    else auth_scan older id ((k, i) :: later)
  end.
Definition auth_spec (rh : reg_history) (id : ident) (t : time) : bool :=
  match auth_scan rh id [] with Some e => t <? e | None => false end.

Section Traces.
Context {wg pkt payload : Type}.

(** the history and the clock as read off an event list (no registry involved) *)
Definition hist_step (hc : reg_history * time) (e : @event pkt payload) : reg_history * time :=
  let '(rh, clock) := hc in
  match e with
  | ERegister k id l => ((k, id, clock + l) :: rh, clock)
  | EAdvance d => (rh, clock + d)
  | _ => (rh, clock)
  end.
Definition history_of (es : list (@event pkt payload)) : reg_history * time :=
  fold_left hist_step es ([], 0).

(** an output that moves a payload for identity [id] *)
Definition flows_for (id : ident) (o : @output pkt payload) : Prop :=
  match o with
  | OIncoming _ x (Some _) _ => x = id        (* a payload delivered to the SCION side *)
  | OIncoming _ x None (_ :: _) => x = id     (* queued outbound payloads sent towards the client *)
  | OEncrypted _ x _ => x = id                (* an outbound payload taken into the tunnel *)
  | _ => False
  end.
Definition registers (id : ident) (e : @event pkt payload) : Prop :=
  match e with ERegister _ x _ => x = id | _ => False end.

(** executable forms for the run-time oracle *)
Definition flows_forb (id : ident) (o : @output pkt payload) : bool :=
  match o with
  | OIncoming _ x (Some _) _ => x =? id
  | OIncoming _ x None (_ :: _) => x =? id
  | OEncrypted _ x _ => x =? id
  | _ => false
  end.
End Traces.

(** * WireGuard as an oracle: the single hypothesis *)
Section WGSpec.
Variables (wg pkt payload : Type).
Variable wg_new : ident -> wg.
Variable wg_in : wg -> pkt -> wg * option payload * list pkt.
Variable wg_out : wg -> payload -> wg * option pkt.
Variable wg_tick : wg -> wg * bool.

(** endpoint states reachable from the endpoint created for peer static key [x] *)
Inductive Reach (x : ident) : wg -> Prop :=
| R_new : Reach x (wg_new x)
| R_in w p : Reach x w -> Reach x (fst (fst (wg_in w p)))
| R_out w pl : Reach x w -> Reach x (fst (wg_out w pl))
| R_tick w : Reach x w -> Reach x (fst (wg_tick w)).

(** [authentic p x]: datagram [p] was produced with the private key of static identity [x].
    THE hypothesis on WireGuard: an endpoint created for peer static key x yields a decrypted
    payload only for datagrams authenticated by x. *)
Definition wg_authenticates (authentic : pkt -> ident -> Prop) : Prop :=
  forall x w p w' pl sent, Reach x w -> wg_in w p = (w', Some pl, sent) -> authentic p x.

(** every tunnel of the server is an endpoint created for its recorded peer identity *)
Definition tunnels_sound (s : @state wg) : Prop :=
  forall a t, tunnels s a = Some t -> Reach (peer_static t) (tunn t).
End WGSpec.

(** the toy endpoint of Model_C09 satisfies the hypothesis *)
Definition toy_authentic (p : toy_pkt) (x : ident) : Prop :=
  match p with TData f _ => f = x | _ => False end.
