(** C10 -- model of SNAP token verification.  Definitions only; statement by statement.

    crates/snap/snap-control/src/server/token_verifier.rs  SnapTokenVerifier::verify,
                                                           build_validation
    jsonwebtoken (version pinned by /repo/Cargo.lock)      decode_header, decode,
                                                           verify_signature_body,
                                                           validation::validate, TryParse,
                                                           numeric_type, Audience
    crates/snap/snap-tokens/src/{lib,v0,v1}.rs             AnyClaims::deserialize and the two
                                                           claims structs
    crates/snap/snap-control/src/api/crpc.rs               register_snaptun_identity_handler
                                                           (granted lifetime)

    The input is a PARSED token.  What is not modelled but represented by oracles carried in
    the input: splitting the string at '.', base64url, JSON text -> JSON value, Ed25519
    ([t_sig]), the UUID text grammar ([uuid_ok]) and base64url decoding of a v1 PSSID
    ([pssid1_ok]).  Everything after that -- which members are looked at, in which order,
    with which types and comparisons -- is modelled. *)
From Coq Require Export List NArith Bool String.
From Sci Require Export Gen.SnapToken.
Export ListNotations.
Local Open Scope string_scope. Local Open Scope N_scope.

Definition U64_LIM : N := 18446744073709551616.      (* 2^64 *)
Definition I64_LIM : N := 9223372036854775808.       (* 2^63 *)

(** * JSON values as serde_json presents them to the visitors involved *)
Inductive jval :=
| JNull
| JBool (b : bool)
| JNum (n : N)             (* non-negative integer literal (serde_json: PosInt when < 2^64,
                              otherwise parsed as a float) *)
| JNegInt                  (* negative integer literal *)
| JFloat (r : option N)    (* number with fraction/exponent; [Some r]: finite, >= 0 and
                              < 2^64 as f64, with [r = value.round() as u64]; [None] otherwise *)
| JStr (s : string)
| JArr (l : list jval)
| JObj (nonempty : bool).  (* a JSON object (members never inspected) *)

(** a JSON object's members in textual order, duplicates possible *)
Definition claims := list (string * jval).

(** serde_json::Value (a map): a later duplicate member overwrites an earlier one, so the value
    of a name is that of its LAST member *)
Fixpoint jget (name : string) (cl : claims) : option jval :=
  match cl with
  | [] => None
  | (n, v) :: r =>
    match jget name r with
    | Some x => Some x
    | None => if String.eqb n name then Some v else None
    end
  end.
Definition jcount (name : string) (cl : claims) : nat :=
  List.length (filter (fun p => String.eqb (fst p) name) cl).

(** * Header *)
Inductive alg := HS256 | HS384 | HS512 | ES256 | ES384 | RS256 | RS384 | RS512
               | PS256 | PS384 | PS512 | EdDSA.
Inductive family := Hmac | Rsa | Ec | Ed.
Definition alg_family (a : alg) : family :=
  match a with
  | HS256 | HS384 | HS512 => Hmac
  | RS256 | RS384 | RS512 | PS256 | PS384 | PS512 => Rsa
  | ES256 | ES384 => Ec
  | EdDSA => Ed
  end.
Definition alg_name (a : alg) : string :=
  match a with
  | HS256 => "HS256" | HS384 => "HS384" | HS512 => "HS512" | ES256 => "ES256" | ES384 => "ES384"
  | RS256 => "RS256" | RS384 => "RS384" | RS512 => "RS512" | PS256 => "PS256" | PS384 => "PS384"
  | PS512 => "PS512" | EdDSA => "EdDSA"
  end.
Definition all_algs : list alg :=
  [HS256; HS384; HS512; ES256; ES384; RS256; RS384; RS512; PS256; PS384; PS512; EdDSA].
Definition alg_of_name (s : string) : option alg :=
  find (fun a => String.eqb (alg_name a) s) all_algs.
Definition alg_eqb (a b : alg) : bool := String.eqb (alg_name a) (alg_name b).
Definition family_eqb (a b : family) : bool :=
  match a, b with Hmac, Hmac | Rsa, Rsa | Ec, Ec | Ed, Ed => true | _, _ => false end.

(** an optional string member of the JOSE header (`Option<String>`): absent or null, a string,
    or something else (then `Header::from_encoded` fails) *)
Inductive hfield := HAbsent | HStr (s : string) | HBad.

Record raw_header := mkRawHeader {
  rh_alg : option alg;   (* None: "alg" missing, not a string, or not one of the twelve
                            names of `Algorithm` -- in particular "none" *)
  rh_kid : hfield;
  rh_typ : hfield }.

Record header := mkHeader { h_alg : alg; h_kid : option string }.

(** verification keys are abstract identifiers; [t_sig t k] says whether the signature
    segment base64url-decodes and is a valid Ed25519 signature of "header.payload" under [k]
    ([false] also when [k] is not an Ed25519 key: `verifier_factory` fails) *)
Definition key := N.

Record token := mkToken {
  t_header : option raw_header;   (* None: not exactly three '.'-separated segments, or the
                                     first is not base64url-no-pad of a JSON object, or a
                                     member other than alg/kid/typ is ill-typed *)
  t_claims : option claims;       (* None: second segment is not base64url-no-pad of a JSON
                                     object *)
  t_sig : key -> bool }.

Definition decode_header (t : token) : option header :=
  match t_header t with
  | None => None
  | Some rh =>
    match rh_alg rh, rh_kid rh, rh_typ rh with
    | None, _, _ => None
    | _, HBad, _ => None
    | _, _, HBad => None
    | Some a, HAbsent, _ => Some (mkHeader a None)
    | Some a, HStr k, _ => Some (mkHeader a (Some k))
    end
  end.

(** * jsonwebtoken::Validation *)
Record validation := mkValidation {
  v_algs : list alg;
  v_required : list string;
  v_aud : option (list string);
  v_leeway : N;
  v_reject_lt : N;
  v_validate_exp : bool;
  v_validate_nbf : bool;
  v_validate_aud : bool }.
(** `iss` and `sub` of the Validation stay at jsonwebtoken's default None: the translator
    fails on any statement of build_validation it does not know, so the two arms of
    `validate` guarded by `options.sub` / `options.iss` are dead and are not transcribed. *)

Fixpoint omap {A B} (f : A -> option B) (l : list A) : list B :=
  match l with [] => [] | a :: r => match f a with Some b => b :: omap f r | None => omap f r end end.

(** build_validation(), from the generated constants *)
Definition snap_validation : validation :=
  mkValidation (omap alg_of_name ALGORITHMS) REQUIRED_SPEC_CLAIMS AUDIENCE LEEWAY
               REJECT_EXPIRING_IN_LESS_THAN VALIDATE_EXP VALIDATE_NBF VALIDATE_AUD.

Record verifier := mkVerifier {
  static_key : key;
  jwks_store : option (string -> option key);   (* kid -> key resolved by JwksKeyStore::await_key *)
  vvalidation : validation }.

(** * validation::validate *)
Inductive tryparse (A : Type) := Parsed (a : A) | FailedToParse | NotPresent.
Arguments Parsed {A} a. Arguments FailedToParse {A}. Arguments NotPresent {A}.
Definition is_parsed {A} (t : tryparse A) : bool := match t with Parsed _ => true | _ => false end.
Definition is_failed {A} (t : tryparse A) : bool := match t with FailedToParse => true | _ => false end.

(** `#[serde(deserialize_with = "numeric_type", default)]`: absent -> NotPresent; visit_u64 and
    a representable visit_f64 -> Parsed; everything else (null included) -> FailedToParse *)
Definition tp_num (o : option jval) : tryparse N :=
  match o with
  | None => NotPresent
  | Some (JNum n) => if n <? U64_LIM then Parsed n else FailedToParse
  | Some (JFloat (Some r)) => Parsed r
  | Some _ => FailedToParse
  end.

Fixpoint str_list (l : list jval) : option (list string) :=
  match l with
  | [] => Some []
  | JStr s :: r => match str_list r with Some ss => Some (s :: ss) | None => None end
  | _ :: _ => None
  end.

Inductive one_or_many := Single (s : string) | Multiple (l : list string).
(** `TryParse<Audience>` / `TryParse<Issuer>`: Option::deserialize, untagged Single | Multiple *)
Definition tp_aud (o : option jval) : tryparse one_or_many :=
  match o with
  | None | Some JNull => NotPresent
  | Some (JStr s) => Parsed (Single s)
  | Some (JArr l) => match str_list l with Some ss => Parsed (Multiple ss) | None => FailedToParse end
  | Some _ => FailedToParse
  end.
Definition tp_str (o : option jval) : tryparse string :=
  match o with
  | None | Some JNull => NotPresent
  | Some (JStr s) => Parsed s
  | Some _ => FailedToParse
  end.

Definition str_in (s : string) (l : list string) : bool := existsb (String.eqb s) l.
(** is_subset: "intersection is non-empty" *)
Definition intersects (a b : list string) : bool := existsb (fun s => str_in s b) a.

Inductive verr :=
| EHeader          (* SnapTokenVerifyError::HeaderDecodeError *)
| EUnknownKid      (* SnapTokenVerifyError::UnknownKid *)
| EAlg             (* InvalidAlgorithm *)
| ESig             (* InvalidSignature, or the signature segment is not base64url, or the key
                      does not fit the algorithm *)
| EClaims          (* Base64 / Json / Utf8: payload undecodable or not deserialisable *)
| EMissing         (* MissingRequiredClaim *)
| EFormat          (* InvalidClaimFormat *)
| EInvalidToken    (* InvalidToken *)
| EExpired         (* ExpiredSignature *)
| EImmature        (* ImmatureSignature *)
| EAud.            (* InvalidAudience *)

Inductive vres := VOk | VErr (e : verr) | VPanic (site : N).

Definition PANIC_NOW_MINUS_LEEWAY : N := 1.   (* `now - options.leeway` underflows (u64) *)
Definition PANIC_NOW_PLUS_LEEWAY : N := 2.    (* `now + options.leeway` overflows (u64) *)
Definition PANIC_EXP_TIME : N := 3.           (* UNIX_EPOCH + Duration::from_secs(exp) overflows *)

Definition present (cl : claims) (name : string) : bool :=
  if String.eqb name "exp" then is_parsed (tp_num (jget "exp" cl))
  else if String.eqb name "sub" then is_parsed (tp_str (jget "sub" cl))
  else if String.eqb name "iss" then is_parsed (tp_aud (jget "iss" cl))
  else if String.eqb name "aud" then is_parsed (tp_aud (jget "aud" cl))
  else if String.eqb name "nbf" then is_parsed (tp_num (jget "nbf" cl))
  else true.    (* `_ => continue` *)

Definition validate_aud (v : validation) (cl : claims) : vres :=
  if negb (v_validate_aud v) then VOk else
  match tp_aud (jget "aud" cl), v_aud v with
  | Parsed _, None => VErr EAud
  | Parsed (Single a), Some correct => if str_in a correct then VOk else VErr EAud
  | Parsed (Multiple a), Some correct => if intersects a correct then VOk else VErr EAud
  | _, _ => VOk
  end.

Definition validate_nbf (v : validation) (now : N) (cl : claims) : vres :=
  match tp_num (jget "nbf" cl) with
  | Parsed nbf =>
    if v_validate_nbf v then
      if U64_LIM <=? now + v_leeway v then VPanic PANIC_NOW_PLUS_LEEWAY
      else if now + v_leeway v <? nbf then VErr EImmature else validate_aud v cl
    else validate_aud v cl
  | _ => validate_aud v cl
  end.

Definition validate_time (v : validation) (now : N) (cl : claims) : vres :=
  if v_validate_exp v || v_validate_nbf v then
    let exp := tp_num (jget "exp" cl) in
    if v_validate_exp v && is_failed exp then VErr EFormat else
    if v_validate_nbf v && is_failed (tp_num (jget "nbf" cl)) then VErr EFormat else
    match exp with
    | Parsed e =>
      if e <? v_reject_lt v then VErr EInvalidToken else
      if v_validate_exp v then
        if now <? v_leeway v then VPanic PANIC_NOW_MINUS_LEEWAY
        else if e - v_reject_lt v <? now - v_leeway v then VErr EExpired
        else validate_nbf v now cl
      else validate_nbf v now cl
    | _ => validate_nbf v now cl
    end
  else validate_aud v cl.

Definition validate (v : validation) (now : N) (cl : claims) : vres :=
  if existsb (fun rc => negb (present cl rc)) (v_required v) then VErr EMissing
  else validate_time v now cl.

(** `ClaimsForValidation` is a derived struct read from the payload TEXT (streaming
    deserialiser): a repeated member among its five fields is serde's "duplicate field" error *)
Definition spec_claim_names : list string := ["exp"; "nbf"; "sub"; "iss"; "aud"].
Definition dup_spec_claim (cl : claims) : bool :=
  existsb (fun n => Nat.ltb 1 (jcount n cl)) spec_claim_names.

(** ... and a member whose value the field's visitor refuses WITHOUT consuming it leaves the
    reader inside that value, so the whole `ClaimsForValidation` fails (serde_json error)
    instead of the field becoming FailedToParse:
    - exp / nbf (`deserialize_any`, default visit_seq / visit_map, then end_seq / end_map fails):
      a non-empty array or object;
    - sub (`deserialize_str` -> peek_invalid_type does not consume '[' or '{'): any array or object.
    iss / aud are untagged enums (value buffered completely first) and never do this. *)
Definition breaks_stream (m : string * jval) : bool :=
  let '(n, v) := m in
  if String.eqb n "exp" || String.eqb n "nbf" then
    match v with JArr (_ :: _) => true | JObj true => true | _ => false end
  else if String.eqb n "sub" then
    match v with JArr _ => true | JObj _ => true | _ => false end
  else false.
Definition unreadable_spec_claim (cl : claims) : bool := existsb breaks_stream cl.

(** * AnyClaims *)
Record snap_claims := mkClaims { c_ver : N; c_exp : N; c_jti : string; c_pssid : string }.

Section Oracles.
(** third-party leaf parsers: `Uuid::parse_str` and "base64url-no-pad decodes to
    V1_PSSID_LEN bytes the first of which is 0" *)
Variable uuid_ok : string -> bool.
Variable pssid1_ok : string -> bool.

Definition has_type (ty : ftype) (v : jval) : bool :=
  match ty, v with
  | FU64, JNum n => n <? U64_LIM
  | FStr, JStr _ => true
  | FPssidV0, JStr s => uuid_ok s
  | FPssidV1, JStr s => pssid1_ok s
  | _, _ => false
  end.

(** derived `Deserialize` of a struct without defaults: every field present and well-typed;
    members that are not fields are ignored (v0) or collected (v1, `flatten`) *)
Definition fields_ok (fields : list (string * ftype)) (cl : claims) : bool :=
  forallb (fun '(n, ty) => match jget n cl with Some v => has_type ty v | None => false end) fields.

Definition get_num (name : string) (cl : claims) : N :=
  match jget name cl with Some (JNum n) => n | _ => 0 end.
Definition get_str (name : string) (cl : claims) : string :=
  match jget name cl with Some (JStr s) => s | _ => "" end.
Definition mk_claims (ver : N) (cl : claims) : snap_claims :=
  mkClaims ver (get_num "exp" cl) (get_str "jti" cl) (get_str "pssid" cl).

(** serde_json::Value::as_u64 *)
Definition as_u64 (v : jval) : option N :=
  match v with JNum n => if n <? U64_LIM then Some n else None | _ => None end.

Definition any_claims (cl : claims) : option snap_claims :=
  match jget "ver" cl with
  | Some ver =>
    match as_u64 ver with
    | Some 1 => if fields_ok V1_FIELDS cl then Some (mk_claims 1 cl) else None
    | Some _ => None       (* unsupported SNAP token version *)
    | None => None         (* 'ver' claim must be a number *)
    end
  | None => if fields_ok V0_FIELDS cl then Some (mk_claims 0 cl) else None
  end.

(** * SnapTokenVerifier::verify *)
Inductive vresult := Accept (c : snap_claims) | Reject (e : verr) | Panicked (site : N).

Definition select_key (V : verifier) (h : header) : option key :=
  match h_kid h, jwks_store V with
  | Some kid, Some store => store kid        (* None: UnknownKid *)
  | _, _ => Some (static_key V)
  end.

Definition verify (V : verifier) (now : N) (t : token) : vresult :=
  match decode_header t with
  | None => Reject EHeader
  | Some h =>
    match select_key V h with
    | None => Reject EUnknownKid
    | Some k =>
      let v := vvalidation V in
      (* decode(): *)
      if negb (existsb (alg_eqb (h_alg h)) (v_algs v)) then Reject EAlg else
      (* verify_signature_body: *)
      if negb (forallb (fun a => family_eqb (alg_family (h_alg h)) (alg_family a)) (v_algs v))
      then Reject EAlg else
      if negb (t_sig t k) then Reject ESig else
      match t_claims t with
      | None => Reject EClaims
      | Some cl =>
        match any_claims cl with
        | None => Reject EClaims
        | Some c =>
          if dup_spec_claim cl || unreadable_spec_claim cl then Reject EClaims else
          match validate v now cl with
          | VOk => Accept c
          | VErr e => Reject e
          | VPanic s => Panicked s
          end
        end
      end
    end
  end.

(** * register_snaptun_identity_handler: lifetime = exp_time() - SystemTime::now() *)
Inductive grant := Granted (lifetime : N) | Refused | GrantPanic (site : N).
Definition granted_lifetime (now2 : N) (c : snap_claims) : grant :=
  if I64_LIM <=? c_exp c then GrantPanic PANIC_EXP_TIME      (* SystemTime + Duration overflow *)
  else if c_exp c <? now2 then Refused                        (* "expiration time is in the past" *)
  else Granted (c_exp c - now2).

End Oracles.
