(** C10 -- property theorems only.  A token is the PARSED structure of Model_C10 (header members,
    payload members, signature oracle); the verifier is the model of SnapTokenVerifier::verify
    with the validation profile generated from build_validation() and jsonwebtoken's defaults.
    Partial with respect to the property sentence in exactly one way: string -> structure
    (base64url, JSON, '.'-splitting), Ed25519, UUID and PSSID text decoding are oracles carried
    by the input (trusted base), tied to the real code by the correspondence check. *)
From Sci Require Import Snap.Model_C10 Snap.Spec_C10 Snap.Proofs_C10.
From Coq Require Import Lia.
Local Open Scope string_scope. Local Open Scope N_scope.

(** The verifier accepts a token if and only if the property's sentence holds of it: EdDSA,
    signature valid under the static key or the JWKS key named by kid, claims of a supported
    version complete and well-typed, "snap" among the audiences whenever an audience is named,
    now <= exp + 60 and nbf <= now + 60 when nbf is present -- for every token outside the
    class C10-malformed-aud, every verifier key configuration, every clock value between
    1970-01-01T00:01:00Z and 2^63 s, and all answers of the UUID / PSSID text oracles. *)
Theorem verify_iff_spec :
  forall (uuid_ok pssid1_ok : string -> bool) (V : verifier) (now : N) (t : token),
    vvalidation V = snap_validation -> 60 <= now < I64_LIM ->
    ~ in_malformed_aud_class t ->
    ((exists c, verify uuid_ok pssid1_ok V now t = Accept c) <->
     SpecAccept uuid_ok pssid1_ok V now t).
Proof.
  intros uo po V now t HV [Hlo Hhi] Hcls.
  rewrite (verify_iff_specb uo po V now t HV Hlo Hhi). rewrite <- specb_iff.
  unfold spec_acceptb. destruct (t_claims t) as [cl|] eqn:E.
  - destruct (malformed_aud cl) eqn:M.
    + exfalso. apply Hcls. exists cl. split; [exact E|exact M].
    + cbn [negb]. rewrite andb_true_r. tauto.
  - rewrite andb_true_r. tauto.
Qed.
Print Assumptions verify_iff_spec.

(** For ALL tokens (the class included) acceptance is exactly the sentence in the reading in
    which an "aud" member that is neither null, a string nor an array of strings names no
    audience; the strict sentence adds only "aud, when present, is well-formed". *)
Theorem verify_characterised :
  forall (uuid_ok pssid1_ok : string -> bool) (V : verifier) (now : N) (t : token),
    vvalidation V = snap_validation -> 60 <= now < I64_LIM ->
    ((exists c, verify uuid_ok pssid1_ok V now t = Accept c) <->
     SpecAcceptLoose uuid_ok pssid1_ok V now t).
Proof.
  intros uo po V now t HV [Hlo Hhi].
  rewrite (verify_iff_specb uo po V now t HV Hlo Hhi). apply spec_loose_iff.
Qed.
Print Assumptions verify_characterised.

(** The sentence's second half, spelled out: a token is refused when its header does not decode
    (wrong segment count, bad base64/JSON, "alg":"none" or any unknown algorithm name), when it
    names another algorithm, when no trusted key verifies its signature (altered header,
    payload or signature; untrusted signer; unknown kid), when it names a version other than
    1, when its window ended more than 60 s ago or begins more than 60 s from now. *)
Theorem other_tokens_refused :
  forall (uuid_ok pssid1_ok : string -> bool) (V : verifier) (now : N) (t : token),
    vvalidation V = snap_validation -> 60 <= now < I64_LIM ->
    ( decode_header t = None
      \/ (exists h, decode_header t = Some h /\ h_alg h <> EdDSA)
      \/ (forall h k, decode_header t = Some h -> trusted_key V (h_kid h) k -> t_sig t k = false)
      \/ (exists cl n, t_claims t = Some cl /\ jget "ver" cl = Some (JNum n) /\ n <> 1)
      \/ (exists cl e, t_claims t = Some cl /\ jget "exp" cl = Some (JNum e) /\ e + 60 < now)
      \/ (exists cl b, t_claims t = Some cl /\ jget "nbf" cl = Some (JNum b) /\ now + 60 < b) ) ->
    forall c, verify uuid_ok pssid1_ok V now t <> Accept c.
Proof.
  intros uo po V now t HV Hr Hcase c Hacc.
  assert (SpecAcceptLoose uo po V now t) as S
    by (apply (verify_characterised uo po V now t HV Hr); exists c; exact Hacc).
  destruct S as (h & cl & Hh & Hcl & Ha & (k & Hk & Hs) & ((Hv & _) & Haud & (e & He & Hle) & Hn)).
  destruct Hcase as [H|[(h' & H & Hne)|[H|[(cl' & n & H1 & H2 & H3)|[(cl' & e' & H1 & H2 & H3)|(cl' & b & H1 & H2 & H3)]]]]].
  - congruence.
  - rewrite Hh in H. inversion H; subst. contradiction.
  - rewrite (H h k Hh Hk) in Hs. discriminate.
  - rewrite Hcl in H1. inversion H1; subst cl'. destruct Hv as [(Habs & _)|(Hver & _)].
    + unfold absent in Habs. congruence.
    + unfold claim in Hver. rewrite H2 in Hver. inversion Hver. contradiction.
  - rewrite Hcl in H1. inversion H1; subst cl'. unfold SPEC_LEEWAY in *.
    destruct He as [n Hc Hlt|r Hc]; unfold claim in Hc; rewrite H2 in Hc; inversion Hc; subst. lia.
  - rewrite Hcl in H1. inversion H1; subst cl'. unfold SPEC_LEEWAY in *.
    destruct Hn as [Habs|(b' & Hb & Hle')]; [unfold absent in Habs; congruence|].
    destruct Hb as [n Hc Hlt|r Hc]; unfold claim in Hc; rewrite H2 in Hc; inversion Hc; subst. lia.
Qed.
Print Assumptions other_tokens_refused.

(** The registration lifetime granted by register_snaptun_identity_handler at handler time
    now2 is exactly exp - now2 for the token's own "exp" claim: it never exceeds the token's
    remaining lifetime (and is refused once exp < now2, even inside the leeway). *)
Theorem lifetime_le_remaining :
  forall (uuid_ok pssid1_ok : string -> bool) (V : verifier) (now now2 : N) (t : token) c cl l,
    verify uuid_ok pssid1_ok V now t = Accept c -> t_claims t = Some cl ->
    granted_lifetime now2 c = Granted l ->
    exists e, jget "exp" cl = Some (JNum e) /\ now2 + l = e.
Proof.
  intros uo po V now now2 t c cl l H Hcl G. exists (c_exp c).
  exact (granted_le uo po V now now2 t c cl l H Hcl G).
Qed.
Print Assumptions lifetime_le_remaining.

(** no arithmetic panic site of jsonwebtoken's validate is reachable for a sane clock *)
Theorem verify_never_panics :
  forall (uuid_ok pssid1_ok : string -> bool) (V : verifier) (now : N) (t : token) s,
    vvalidation V = snap_validation -> 60 <= now < I64_LIM ->
    verify uuid_ok pssid1_ok V now t <> Panicked s.
Proof. intros uo po V now t s HV [Hlo Hhi]. exact (verify_no_panic uo po V now t s HV Hlo Hhi). Qed.
Print Assumptions verify_never_panics.

(** non-vacuity: a v1 token signed by the static key is accepted, and the same token is
    refused one hour before its not-before time and 61 s after its expiry *)
Example ex_accepted :
  verify (fun _ => true) (fun _ => true) ex_ver 2000 (ex_tok 1000 3000) = Accept (mkClaims 1 3000 "j" "p").
Proof. vm_compute. reflexivity. Qed.
Example ex_too_early :
  verify (fun _ => true) (fun _ => true) ex_ver 2000 (ex_tok 5600 9000) = Reject EImmature.
Proof. vm_compute. reflexivity. Qed.
Example ex_too_late :
  verify (fun _ => true) (fun _ => true) ex_ver 3061 (ex_tok 1000 3000) = Reject EExpired.
Proof. vm_compute. reflexivity. Qed.
Example ex_other_key :
  verify (fun _ => true) (fun _ => true) (mkVerifier 8 None snap_validation) 2000 (ex_tok 1000 3000) = Reject ESig.
Proof. vm_compute. reflexivity. Qed.
Example ex_alg_none :
  decode_header (mkToken (Some (mkRawHeader None HAbsent (HStr "JWT"))) (t_claims (ex_tok 1000 3000)) (fun _ => true)) = None.
Proof. reflexivity. Qed.
