(** Correspondence driver for C09: evaluated by [vm_compute] on case files written by
    harness/hc_snap/src/bin/h_snap_registry.rs.  A case is one history.  The harness drove the
    real `IdentityRegistry` and the real `SnapTunServer` (with real ana-gotatun client
    tunnels; the server's authorisation object answers from the registry at base + virtual
    time) and recorded, per event, what the implementation did and, after every event, the
    answers of `has_authorization` for every identity at the current time and at time 0.
    Here the model (with the toy WireGuard endpoint of Model_C09) runs the same events. *)
From Sci Require Export Snap.Model_C09 Snap.Spec_C09.
Local Open Scope N_scope.

Inductive hev :=
| HRegister (k id lifetime : N) (was_new : bool)
| HAdvance (d : N)
| HPurge
| HIn (a : addr) (p : toy_pkt) (fwd : bool) (attr : N) (body : list N) (ndata : N)
      (* server.handle_incoming_packet_with_session: Forwarded?, identity of the returned
         session data, forwarded bytes, number of Data datagrams pushed to send_to_network *)
| HOut (a : addr) (body : list N) (cls : N) (attr : N) (decrypted_by : option N)
      (* server.handle_outgoing_packet_with_session: 0 = Some with a Data datagram,
         3 = Some without one, 1 = None; identity of the session data; which client tunnel,
         if any, opened the datagram *)
| HTick.

Definition obs := (hev * list bool * list bool)%type.
Record rcase := mkRCase { rc_ids : list N; rc_events : list obs }.

Definition tstate := @state toy_wg.
Definition tstep := @step toy_wg toy_pkt (list N) toy_new toy_in toy_out toy_tick toy_hs toy_keepalive.

Definition to_event (h : hev) : @event toy_pkt (list N) :=
  match h with
  | HRegister k id l _ => ERegister k id l
  | HAdvance d => EAdvance d
  | HPurge => EPurge
  | HIn a p _ _ _ _ => EPacketIn a p
  | HOut a b _ _ _ => EPacketOut a b
  | HTick => ETick
  end.

Fixpoint list_eqb {A} (eqb : A -> A -> bool) (x y : list A) : bool :=
  match x, y with
  | [], [] => true
  | a :: x', b :: y' => eqb a b && list_eqb eqb x' y'
  | _, _ => false
  end.
Definition bool_list_eqb (x y : list bool) : bool := list_eqb Bool.eqb x y.
Definition count_data (l : list toy_pkt) : N :=
  N.of_nat (length (filter (fun p => match p with TData _ _ => true | _ => false end) l)).
Definition nlist_eqb (x y : list N) : bool := list_eqb N.eqb x y.

(** does the model's output agree with what was observed for this event? *)
Definition agree (h : hev) (o : @output toy_pkt (list N)) : bool :=
  match h, o with
  | HRegister _ _ _ wn, ORegistered b => Bool.eqb wn b
  | HAdvance _, ONothing | HPurge, ONothing | HTick, ONothing => true
  | HIn _ _ fwd attr body nd, OIncoming _ id (Some pl) sent =>
    fwd && (attr =? id) && nlist_eqb body pl && (nd =? count_data sent)
  | HIn _ _ fwd _ _ nd, OIncoming _ _ None sent => negb fwd && (nd =? count_data sent)
  | HIn _ _ fwd _ _ nd, OUnauthorized | HIn _ _ fwd _ _ nd, OInvalid => negb fwd && (nd =? 0)
  | HOut _ _ cls attr _, OEncrypted _ id (Some (TData _ _)) => (cls =? 0) && (attr =? id)
  | HOut _ _ cls attr _, OEncrypted _ id _ => (cls =? 3) && (attr =? id)
  | HOut _ _ cls _ _, ONoTunnel | HOut _ _ cls _ _, ODroppedOut => cls =? 1
  | _, _ => false
  end.

(** property oracles on the IMPLEMENTATION's observations *)
Definition packet_sender (p : toy_pkt) : option N :=
  match p with THandshake f => Some f | TData f _ => Some f | _ => None end.
Definition auth_of (ids : list N) (ans : list bool) (id : N) : bool :=
  existsb (fun '(i, b) => (i =? id) && b) (combine ids ans).

Definition oracle_event (ids : list N) (h : hev) (ans_now : list bool) : bool :=
  match h with
  | HIn _ p fwd attr _ nd =>
    (* something flowed => the session's identity is authorised now and is the sender *)
    if fwd || negb (nd =? 0) then
      auth_of ids ans_now attr &&
      match packet_sender p with Some f => f =? attr | None => false end
    else true
  | HOut _ _ cls attr dec =>
    (if cls =? 1 then true else auth_of ids ans_now attr) &&
    match dec with Some c => c =? attr | None => true end
  | _ => true
  end.

Fixpoint walk (ids : list N) (s : tstate) (hc : reg_history * time) (evs : list obs) : bool * bool :=
  (* (model agrees, oracles hold) *)
  match evs with
  | [] => (true, true)
  | (h, ans_now, ans_zero) :: r =>
    let '(s', o) := tstep s (to_event h) in
    let hc' := hist_step hc (to_event h) in
    let m_now := map (is_authorized (reg s') (now s')) ids in
    let m_zero := map (is_authorized (reg s') 0) ids in
    let ok_model := agree h o && bool_list_eqb m_now ans_now && bool_list_eqb m_zero ans_zero in
    (* authorisation as the history alone defines it, against the implementation's answers *)
    let spec_now := map (fun id => auth_spec (fst hc') id (snd hc')) ids in
    let ok_spec := bool_list_eqb spec_now ans_now && oracle_event ids h ans_now in
    let '(a, b) := walk ids s' hc' r in
    (ok_model && a, ok_spec && b)
  end.

Definition verdict (c : rcase) : N :=
  let '(m, p) := walk (rc_ids c) state0 ([], 0) (rc_events c) in
  (if m then 0 else 1) + (if p then 0 else 2).

Definition verdicts (cs : list rcase) : list N := map verdict cs.
