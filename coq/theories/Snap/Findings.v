(** Witnesses for the findings of C09 / C10, closed by computation on the models. *)
From Sci Require Import Snap.Model_C10 Snap.Spec_C10 Snap.Model_C09.
Local Open Scope string_scope. Local Open Scope N_scope.

(** * C10, repaired: `validate_nbf` was false (jsonwebtoken's default) in build_validation().
    With the profile as it was, a v1 token whose not-before time lies one hour in the future
    is accepted; the executable specification refuses it. *)
Definition validation_before_fix : validation :=
  mkValidation [EdDSA] ["exp"; "pssid"] (Some ["snap"]) 60 0 true false true.
Definition tok_nbf_future : token :=
  mkToken (Some (mkRawHeader (Some EdDSA) HAbsent (HStr "JWT")))
          (Some [("ver", JNum 1); ("iss", JStr "ssr"); ("aud", JStr "snap"); ("exp", JNum 9000);
                 ("nbf", JNum 5600); ("iat", JNum 1000); ("jti", JStr "j"); ("pssid", JStr "p")])
          (fun k => k =? 0).
Lemma nbf_unchecked_refuted :
  verify (fun _ => true) (fun _ => true) (mkVerifier 0 None validation_before_fix) 2000 tok_nbf_future
    = Accept (mkClaims 1 9000 "j" "p") /\
  spec_acceptb (fun _ => true) (fun _ => true) (mkVerifier 0 None validation_before_fix) 2000 tok_nbf_future = false.
Proof. split; vm_compute; reflexivity. Qed.
(** ... and with the repaired profile (the generated one) it is refused *)
Lemma nbf_checked_after_fix :
  verify (fun _ => true) (fun _ => true) (mkVerifier 0 None snap_validation) 2000 tok_nbf_future = Reject EImmature.
Proof. vm_compute. reflexivity. Qed.

(** * C10, open, class C10-malformed-aud: a legacy (version 0) token whose "aud" member is not
    null, a string or an array of strings is accepted whatever it says -- here an array naming
    another audience next to a number. *)
Definition tok_malformed_aud : token :=
  mkToken (Some (mkRawHeader (Some EdDSA) HAbsent (HStr "JWT")))
          (Some [("pssid", JStr "u"); ("exp", JNum 9000); ("jti", JStr "j");
                 ("aud", JArr [JStr "other"; JNum 7])])
          (fun k => k =? 0).
Lemma malformed_aud_accepted :
  verify (fun _ => true) (fun _ => true) (mkVerifier 0 None snap_validation) 2000 tok_malformed_aud
    = Accept (mkClaims 0 9000 "j" "u") /\
  (exists cl, t_claims tok_malformed_aud = Some cl /\ malformed_aud cl = true) /\
  spec_acceptb (fun _ => true) (fun _ => true) (mkVerifier 0 None snap_validation) 2000 tok_malformed_aud = false.
Proof.
  split; [vm_compute; reflexivity|]. split; [|vm_compute; reflexivity].
  eexists. split; [reflexivity|vm_compute; reflexivity].
Qed.
(** the well-formed array naming only another audience is refused *)
Lemma other_aud_refused :
  verify (fun _ => true) (fun _ => true) (mkVerifier 0 None snap_validation) 2000
    (mkToken (t_header tok_malformed_aud)
             (Some [("pssid", JStr "u"); ("exp", JNum 9000); ("jti", JStr "j"); ("aud", JArr [JStr "other"])])
             (fun k => k =? 0)) = Reject EAud.
Proof. vm_compute. reflexivity. Qed.

(** * C09: no finding.  Two behaviours worth knowing, both allowed by the property sentence
    ("until the identity registers again"): the WireGuard session outlives the lapse, so after
    a re-registration traffic resumes WITHOUT a new handshake; and outbound payloads queued
    while the session was unconfirmed are sent when the client's next packet arrives -- but
    only if the identity is authorised at that later moment (otherwise they stay queued). *)
Lemma c09_tunnel_revives_without_handshake :
  map snd (snd (@run toy_wg toy_pkt (list N) toy_new toy_in toy_out toy_tick toy_hs toy_keepalive state0
     [ERegister 0 1 5; EPacketIn 0 (THandshake 1); EPacketIn 0 (TData 1 []); EAdvance 5;
      EPacketIn 0 (TData 1 [7]); EPacketOut 0 [8]; ERegister 0 1 5; EPacketIn 0 (TData 1 [9]); EPacketOut 0 [10]]))
  = [ORegistered true; OIncoming 0 1 None [TResponse]; OIncoming 0 1 None []; ONothing;
     OUnauthorized; ODroppedOut; ORegistered false; OIncoming 0 1 (Some [9]) []; OEncrypted 0 1 (Some (TData 1 [10]))].
Proof. vm_compute. reflexivity. Qed.
