(** C09 -- model of the SNAP tunnel's authorisation path.  Definitions only.

    crates/snap/snap-control/src/server/identity_registry.rs
        IdentityRegistryState::{is_authorized, add_identity, clean_expired},
        IdentityRegistration::is_authorized, IdentityRegistry::{register, remove_expired}
    crates/snap/snap-tun/src/server.rs
        SnapTunServer::{handle_incoming_packet_with_session, handle_outgoing_packet_with_session,
                        update_timers, handle_incoming_and_drain_queue, incoming_packet_result}
    crates/snap/snap-dataplane/src/tunnel_gateway/gateway.rs forwards exactly the `Forwarded`
    results and sends exactly the `Some` results of the two server calls.

    Keys (token ids, `Arc<str>`), identities (`[u8; 32]`) and remote socket addresses are
    abstract names [N].  The two BTreeMaps and the HashMap are finite maps used only through
    get / insert / remove / retain; they are modelled by their lookup functions (iteration
    order is never observable).  Time is [N] (an `Instant` as an offset from a fixed base).
    WireGuard (ana-gotatun `Tunn`) is an abstract endpoint: see [Section WG]. *)
From Coq Require Export List NArith Bool.
From Sci Require Export Gen.SnapRegistry.
Export ListNotations.
Local Open Scope N_scope.

Definition key := N.
Definition ident := N.
Definition addr := N.
Definition time := N.

(** * IdentityRegistryState *)
Record registry := mkReg {
  associations : key -> option ident;      (* BTreeMap<Arc<str>, Identity> *)
  sessions : ident -> option time }.       (* BTreeMap<Identity, IdentityRegistration{expires_at}> *)

Definition reg_empty : registry := mkReg (fun _ => None) (fun _ => None).

Definition upd {V} (m : N -> option V) (k : N) (v : option V) : N -> option V :=
  fun k' => if k' =? k then v else m k'.

(** IdentityRegistration::is_authorized: `self.expires_at > now` *)
Definition registration_is_authorized (expires_at now : time) : bool :=
  if AUTH_STRICT then now <? expires_at else now <=? expires_at.

(** IdentityRegistryState::is_authorized: sessions.get(ident).filter(is_authorized) *)
Definition is_authorized (r : registry) (now : time) (id : ident) : bool :=
  match sessions r id with
  | Some e => registration_is_authorized e now
  | None => false
  end.

(** IdentityRegistryState::add_identity; returns (state, was_new) *)
Definition add_identity (r : registry) (k : key) (id : ident) (expiry : time) : registry * bool :=
  let was_new := match sessions r id with Some _ => false | None => true end in
  (* if let Some(prev) = associations.insert(key, identity) && prev != identity { sessions.remove(prev) } *)
  let prev := associations r k in
  let assoc1 := upd (associations r) k (Some id) in
  let sess1 := match prev with
               | Some p => if p =? id then sessions r else upd (sessions r) p None
               | None => sessions r
               end in
  (* associations.retain(|ek, ei| *ei != identity || ek == &key) *)
  let assoc2 := fun k' => match assoc1 k' with
                          | Some i => if negb (i =? id) || (k' =? k) then Some i else None
                          | None => None
                          end in
  (* sessions.insert(identity, IdentityRegistration::new(expiry)) *)
  (mkReg assoc2 (upd sess1 id (Some expiry)), was_new).

(** IdentityRegistryState::clean_expired *)
Definition expired (r : registry) (now : time) (id : ident) : bool :=
  match sessions r id with
  | Some e => negb (registration_is_authorized e now)
  | None => false
  end.
Definition clean_expired (r : registry) (now : time) : registry :=
  mkReg (fun k => match associations r k with
                  | Some i => if expired r now i then None else Some i
                  | None => None
                  end)
        (fun id => if expired r now id then None else sessions r id).

(** IdentityRegistry::register(now, key, ident, lifetime): expiry = now + lifetime *)
Definition register (r : registry) (now : time) (k : key) (id : ident) (lifetime : N) : registry * bool :=
  add_identity r k id (now + lifetime).

(** * SnapTunServer over an abstract WireGuard endpoint *)
Section WG.
Variable wg : Type.          (* ana_gotatun::noise::Tunn *)
Variable pkt : Type.         (* a datagram from the network (after the rate limiter) *)
Variable payload : Type.     (* a tunnelled SCION packet *)
Variable wg_new : ident -> wg.                          (* Tunn::new(.., peer_static, ..) *)
Variable wg_in : wg -> pkt -> wg * option payload * list pkt.
        (* handle_incoming_and_drain_queue: Tunn::handle_incoming_packet (Some = WriteToTunnel)
           and everything pushed to `send_to_network`: the WriteToNetwork answer and the
           drained queue of outbound packets (`get_queued_packets`) *)
Variable wg_out : wg -> payload -> wg * option pkt.     (* Tunn::handle_outgoing_packet *)
Variable wg_tick : wg -> wg * bool.                     (* update_timers, then is_expired *)
Variable hs_peer : pkt -> option ident.                 (* HandshakeInit that parse_handshake_anon
                                                           opens: the initiator's static key *)
Variable is_keepalive : payload -> bool.                (* `p.is_empty()` *)

Record tunnel := mkTunnel { peer_static : ident; tunn : wg }.

Record state := mkState {
  reg : registry;
  tunnels : addr -> option tunnel;       (* SnapTunServer::active_tunnels *)
  now : time }.

Definition state0 : state := mkState reg_empty (fun _ => None) 0.

Inductive event :=
| ERegister (k : key) (id : ident) (lifetime : N)   (* control plane: IdentityRegistry::register *)
| EAdvance (d : N)                                  (* the clock advances *)
| EPurge                                            (* IdentityRegistry::remove_expired(now) *)
| EPacketIn (a : addr) (p : pkt)                    (* datagram from remote socket address a *)
| EPacketOut (a : addr) (pl : payload)              (* SCION packet to be sent to a *)
| ETick.                                            (* SnapTunServer::update_timers *)

Inductive output :=
| ORegistered (was_new : bool)
| OIncoming (a : addr) (session_of : ident) (fwd : option payload) (sent : list pkt)
      (* the packet reached the tunnel of an authorised peer.  fwd = Some pl:
         HandleIncomingPacketResult::Forwarded{packet = pl, session_data of session_of};
         fwd = None: Result{..}.  sent: datagrams queued for the remote address *)
| OEncrypted (a : addr) (session_of : ident) (p : option pkt)  (* handle_outgoing.. = Some{network_packet = p} *)
| OUnauthorized             (* Err(UnexpectedPacket): peer not authorised *)
| OInvalid                  (* Err(InvalidPacket): no tunnel and not a handshake init *)
| ONoTunnel                 (* handle_outgoing: None, no tunnel for the address *)
| ODroppedOut               (* handle_outgoing: None, peer not authorised *)
| ONothing.

(** incoming_packet_result after handle_incoming_and_drain_queue
    (`WriteToTunnel(p) if p.is_empty() => Done`) *)
Definition incoming_result (a : addr) (id : ident) (r : option payload) (sent : list pkt) : output :=
  match r with
  | Some pl => if is_keepalive pl then OIncoming a id None sent else OIncoming a id (Some pl) sent
  | None => OIncoming a id None sent
  end.

Definition handle_incoming (s : state) (a : addr) (p : pkt) : state * output :=
  match tunnels s a with
  | Some t =>                                         (* Entry::Occupied *)
    if is_authorized (reg s) (now s) (peer_static t) then
      let '(w', r, sent) := wg_in (tunn t) p in
      (mkState (reg s) (upd (tunnels s) a (Some (mkTunnel (peer_static t) w'))) (now s),
       incoming_result a (peer_static t) r sent)
    else (s, OUnauthorized)
  | None =>
    match hs_peer p with
    | Some x =>                                       (* (Vacant, HandshakeInit) *)
      if is_authorized (reg s) (now s) x then
        let '(w', r, sent) := wg_in (wg_new x) p in
        (mkState (reg s) (upd (tunnels s) a (Some (mkTunnel x w'))) (now s),
         incoming_result a x r sent)
      else (s, OUnauthorized)
    | None => (s, OInvalid)
    end
  end.

Definition handle_outgoing (s : state) (a : addr) (pl : payload) : state * output :=
  match tunnels s a with
  | None => (s, ONoTunnel)
  | Some t =>
    if is_authorized (reg s) (now s) (peer_static t) then
      let '(w', p) := wg_out (tunn t) pl in
      (mkState (reg s) (upd (tunnels s) a (Some (mkTunnel (peer_static t) w'))) (now s),
       OEncrypted a (peer_static t) p)
    else (s, ODroppedOut)
  end.

Definition update_timers (s : state) : state :=
  mkState (reg s)
          (fun a => match tunnels s a with
                    | Some t => let '(w', dead) := wg_tick (tunn t) in
                                if dead then None else Some (mkTunnel (peer_static t) w')
                    | None => None
                    end)
          (now s).

Definition step (s : state) (e : event) : state * output :=
  match e with
  | ERegister k id l =>
    let '(r', was_new) := register (reg s) (now s) k id l in
    (mkState r' (tunnels s) (now s), ORegistered was_new)
  | EAdvance d => (mkState (reg s) (tunnels s) (now s + d), ONothing)
  | EPurge => (mkState (clean_expired (reg s) (now s)) (tunnels s) (now s), ONothing)
  | EPacketIn a p => handle_incoming s a p
  | EPacketOut a pl => handle_outgoing s a pl
  | ETick => (update_timers s, ONothing)
  end.

(** the run of a history: final state and the outputs with the state BEFORE each step *)
Fixpoint run (s : state) (es : list event) : state * list (state * event * output) :=
  match es with
  | [] => (s, [])
  | e :: r =>
    let '(s', o) := step s e in
    let '(sf, tr) := run s' r in
    (sf, (s, e, o) :: tr)
  end.

Definition final (s : state) (es : list event) : state := fold_left (fun s e => fst (step s e)) es s.

End WG.

Arguments mkTunnel {wg}. Arguments peer_static {wg}. Arguments tunn {wg}.
Arguments mkState {wg}. Arguments reg {wg}. Arguments tunnels {wg}. Arguments now {wg}.
Arguments state0 {wg}.
Arguments ERegister {pkt payload}. Arguments EAdvance {pkt payload}. Arguments EPurge {pkt payload}.
Arguments EPacketIn {pkt payload}. Arguments EPacketOut {pkt payload}. Arguments ETick {pkt payload}.
Arguments ORegistered {pkt payload}. Arguments OIncoming {pkt payload}. Arguments OEncrypted {pkt payload}.
Arguments OUnauthorized {pkt payload}. Arguments OInvalid {pkt payload}.
Arguments ONoTunnel {pkt payload}. Arguments ODroppedOut {pkt payload}. Arguments ONothing {pkt payload}.

(** * A toy WireGuard: an authenticated channel in which every datagram names its sender in
    clear.  An endpoint created for peer X remembers X, whether a handshake from X was seen
    (it can then open X's data packets), whether X's use of the session was confirmed by a
    data packet (it can then send), and the outbound payloads queued meanwhile. *)
Inductive toy_pkt :=
| THandshake (from : ident) | TResponse | TData (from : ident) (body : list N) | TInitBack | TJunk.
Record toy_wg := mkToy {
  toy_peer : ident; toy_session : bool; toy_confirmed : bool; toy_queue : list (list N); toy_idle : N }.
Definition toy_new (x : ident) : toy_wg := mkToy x false false [] 0.
Definition toy_in (w : toy_wg) (p : toy_pkt) : toy_wg * option (list N) * list toy_pkt :=
  match p with
  | THandshake f =>
    if f =? toy_peer w then (mkToy (toy_peer w) true (toy_confirmed w) (toy_queue w) 0, None, [TResponse])
    else (w, None, [])
  | TData f b =>
    if (f =? toy_peer w) && toy_session w
    then (mkToy (toy_peer w) true true [] 0, Some b, map (TData (toy_peer w)) (toy_queue w))
    else (w, None, [])
  | _ => (w, None, [])
  end.
Definition toy_out (w : toy_wg) (b : list N) : toy_wg * option toy_pkt :=
  if toy_confirmed w then (w, Some (TData (toy_peer w) b))
  else (mkToy (toy_peer w) (toy_session w) false (toy_queue w ++ [b]) (toy_idle w),
        match toy_queue w with [] => Some TInitBack | _ => None end).
Definition TOY_IDLE_LIMIT : N := 1000.
Definition toy_tick (w : toy_wg) : toy_wg * bool :=
  (mkToy (toy_peer w) (toy_session w) (toy_confirmed w) (toy_queue w) (toy_idle w + 1),
   TOY_IDLE_LIMIT <=? toy_idle w).
Definition toy_hs (p : toy_pkt) : option ident := match p with THandshake f => Some f | _ => None end.
Definition toy_keepalive (b : list N) : bool := match b with [] => true | _ => false end.
