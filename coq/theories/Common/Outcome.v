(** Outcomes of modelled Rust functions.  Everything a Rust function can do that a total
    Gallina function cannot (panic: failed index, unwrap, expect, overflow in a debug build)
    is an explicit [Panic] value, so "never panics" is a theorem and not an artefact of
    totalisation. *)
From Coq Require Export List NArith ZArith Bool Lia.
Export ListNotations.

Inductive outcome (A E : Type) : Type :=
| Ok (a : A)
| Err (e : E)
| Panic (site : N).
Arguments Ok {A E} a.
Arguments Err {A E} e.
Arguments Panic {A E} site.

Definition is_panic {A E} (o : outcome A E) : bool :=
  match o with Panic _ => true | _ => false end.

Definition obind {A B E} (o : outcome A E) (f : A -> outcome B E) : outcome B E :=
  match o with Ok a => f a | Err e => Err e | Panic s => Panic s end.

Notation "x <- e1 ;; e2" := (obind e1 (fun x => e2))
  (at level 61, e1 at next level, right associativity).

(** Bytes are modelled as [N] below 256; [bytesb] is the well-formedness test. *)
Definition byte_ok (b : N) : bool := (b <? 256)%N.
Definition bytes_ok (l : list N) : bool := forallb byte_ok l.

(** Big-endian value of a byte list. *)
Fixpoint be_val (acc : N) (l : list N) : N :=
  match l with [] => acc | b :: r => be_val (acc * 256 + b) r end.

(** [n] bytes, big endian, of [v] (truncating like [as uN] + to_be_bytes). *)
Fixpoint be_bytes (n : nat) (v : N) : list N :=
  match n with O => [] | S k => be_bytes k (v / 256) ++ [v mod 256] end%N.

Definition slice {A} (l : list A) (lo len : nat) : list A := firstn len (skipn lo l).

(** run-length encoding, used to keep correspondence case files small *)
Fixpoint rle_expand {A} (runs : list (N * A)) : list A :=
  match runs with [] => [] | (n, a) :: r => repeat a (N.to_nat n) ++ rle_expand r end.

Definition rle_push (b : N) (runs : list (N * N)) : list (N * N) :=
  match runs with
  | (n, a) :: r => if (a =? b)%N then (n + 1, a)%N :: r else (1, b)%N :: runs
  | [] => [(1, b)%N]
  end.
(** encodes a list back-to-front, so that the result is in list order *)
Definition rle (l : list N) : list (N * N) := fold_right rle_push [] l.

Fixpoint list_eqb {A} (eqb : A -> A -> bool) (x y : list A) : bool :=
  match x, y with
  | [], [] => true
  | a :: x', b :: y' => eqb a b && list_eqb eqb x' y'
  | _, _ => false
  end.
Definition pairN_eqb (x y : N * N) : bool := (fst x =? fst y)%N && (snd x =? snd y)%N.
Definition optN_eqb (x y : option N) : bool :=
  match x, y with Some a, Some b => (a =? b)%N | None, None => true | _, _ => false end.
