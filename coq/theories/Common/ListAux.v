(** List lemmas missing from the Coq 8.16 standard library. *)
From Coq Require Import List Arith Lia.
Import ListNotations.

Lemma nth_error_firstn {A} (l : list A) n i :
  i < n -> nth_error (firstn n l) i = nth_error l i.
Proof.
  revert n i; induction l as [|a l IH]; intros n i H.
  - rewrite firstn_nil. reflexivity.
  - destruct n as [|n]; [lia|]. destruct i as [|i]; cbn; [reflexivity|]. apply IH. lia.
Qed.

Lemma nth_error_firstn_ge {A} (l : list A) n i :
  n <= i -> nth_error (firstn n l) i = None.
Proof.
  intros H. apply nth_error_None. rewrite firstn_length. lia.
Qed.

Lemma nth_error_skipn {A} (l : list A) n i :
  nth_error (skipn n l) i = nth_error l (n + i).
Proof.
  revert l; induction n as [|n IH]; intros l; cbn; [reflexivity|].
  destruct l as [|a l]; cbn; [destruct i; reflexivity|]. apply IH.
Qed.

Lemma nth_error_ext {A} (l1 l2 : list A) :
  (forall i, nth_error l1 i = nth_error l2 i) -> l1 = l2.
Proof.
  revert l2; induction l1 as [|a l1 IH]; intros [|b l2] H; auto.
  - specialize (H 0); discriminate.
  - specialize (H 0); discriminate.
  - f_equal; [specialize (H 0); cbn in H; congruence|].
    apply IH. intros i. exact (H (S i)).
Qed.

Lemma skipn_skipn {A} (l : list A) n m : skipn n (skipn m l) = skipn (n + m) l.
Proof.
  revert l; induction m as [|m IH]; intros l.
  - rewrite Nat.add_0_r. reflexivity.
  - destruct l as [|a l].
    + rewrite !skipn_nil. reflexivity.
    + rewrite Nat.add_succ_r. cbn [skipn]. apply IH.
Qed.
