(** AES-128 (FIPS 197) and AES-CMAC (RFC 4493) over byte lists, executable in Gallina.
    Used to EXECUTE the hop-field MAC in correspondence checks and witnesses; the theorems of
    StdPath treat the MAC as a [Section] variable and do not depend on this file.  Validated
    below against the FIPS 197 appendix C.1 vector and the four RFC 4493 examples by
    [vm_compute], and against the implementation's [calculate_hop_mac] by the C11 correspondence. *)
From Coq Require Import List NArith.
Import ListNotations.
Local Open Scope N_scope.

Definition sbox : list N :=
  [99; 124; 119; 123; 242; 107; 111; 197; 48; 1; 103; 43; 254; 215; 171; 118;
   202; 130; 201; 125; 250; 89; 71; 240; 173; 212; 162; 175; 156; 164; 114; 192;
   183; 253; 147; 38; 54; 63; 247; 204; 52; 165; 229; 241; 113; 216; 49; 21;
   4; 199; 35; 195; 24; 150; 5; 154; 7; 18; 128; 226; 235; 39; 178; 117;
   9; 131; 44; 26; 27; 110; 90; 160; 82; 59; 214; 179; 41; 227; 47; 132;
   83; 209; 0; 237; 32; 252; 177; 91; 106; 203; 190; 57; 74; 76; 88; 207;
   208; 239; 170; 251; 67; 77; 51; 133; 69; 249; 2; 127; 80; 60; 159; 168;
   81; 163; 64; 143; 146; 157; 56; 245; 188; 182; 218; 33; 16; 255; 243; 210;
   205; 12; 19; 236; 95; 151; 68; 23; 196; 167; 126; 61; 100; 93; 25; 115;
   96; 129; 79; 220; 34; 42; 144; 136; 70; 238; 184; 20; 222; 94; 11; 219;
   224; 50; 58; 10; 73; 6; 36; 92; 194; 211; 172; 98; 145; 149; 228; 121;
   231; 200; 55; 109; 141; 213; 78; 169; 108; 86; 244; 234; 101; 122; 174; 8;
   186; 120; 37; 46; 28; 166; 180; 198; 232; 221; 116; 31; 75; 189; 139; 138;
   112; 62; 181; 102; 72; 3; 246; 14; 97; 53; 87; 185; 134; 193; 29; 158;
   225; 248; 152; 17; 105; 217; 142; 148; 155; 30; 135; 233; 206; 85; 40; 223;
   140; 161; 137; 13; 191; 230; 66; 104; 65; 153; 45; 15; 176; 84; 187; 22].
Definition sub_byte (x : N) : N := nth (N.to_nat x) sbox 0.

Fixpoint xor_bytes (a c : list N) : list N :=
  match a, c with x :: a', y :: c' => N.lxor x y :: xor_bytes a' c' | _, _ => [] end.

Definition xtime (x : N) : N := N.lxor ((2 * x) mod 256) (if 128 <=? x then 27 else 0).

Definition shift_rows_idx : list nat := [0; 5; 10; 15; 4; 9; 14; 3; 8; 13; 2; 7; 12; 1; 6; 11]%nat.
Definition shift_rows (s : list N) : list N := map (fun i => nth i s 0) shift_rows_idx.

Definition mix_column (a0 a1 a2 a3 : N) : list N :=
  let x := N.lxor in
  [x (x (xtime a0) (x (xtime a1) a1)) (x a2 a3);
   x (x a0 (xtime a1)) (x (x (xtime a2) a2) a3);
   x (x a0 a1) (x (xtime a2) (x (xtime a3) a3));
   x (x (x (xtime a0) a0) a1) (x a2 (xtime a3))].
Fixpoint mix_columns (s : list N) : list N :=
  match s with
  | a0 :: a1 :: a2 :: a3 :: r => mix_column a0 a1 a2 a3 ++ mix_columns r
  | _ => []
  end.

(* next round key from the previous one *)
Definition next_round_key (rk : list N) (rcon : N) : list N :=
  match rk with
  | [k0; k1; k2; k3; k4; k5; k6; k7; k8; k9; k10; k11; k12; k13; k14; k15] =>
    let x := N.lxor in
    let w0 := [x k0 (x (sub_byte k13) rcon); x k1 (sub_byte k14); x k2 (sub_byte k15); x k3 (sub_byte k12)] in
    let w1 := xor_bytes [k4; k5; k6; k7] w0 in
    let w2 := xor_bytes [k8; k9; k10; k11] w1 in
    let w3 := xor_bytes [k12; k13; k14; k15] w2 in
    w0 ++ w1 ++ w2 ++ w3
  | _ => []
  end.
Definition rcons : list N := [1; 2; 4; 8; 16; 32; 64; 128; 27; 54].
(* the ten round keys after the cipher key itself *)
Fixpoint round_keys (rk : list N) (rc : list N) : list (list N) :=
  match rc with [] => [] | c :: r => let k := next_round_key rk c in k :: round_keys k r end.

Fixpoint aes_rounds (s : list N) (rks : list (list N)) : list N :=
  match rks with
  | [] => s
  | [k] => xor_bytes (shift_rows (map sub_byte s)) k
  | k :: r => aes_rounds (xor_bytes (mix_columns (shift_rows (map sub_byte s))) k) r
  end.
Definition aes128 (key block : list N) : list N :=
  aes_rounds (xor_bytes block key) (round_keys key rcons).

(** CMAC *)
Fixpoint be_val' (acc : N) (l : list N) : N :=
  match l with [] => acc | b :: r => be_val' (acc * 256 + b) r end.
Fixpoint be_bytes' (n : nat) (v : N) : list N :=
  match n with O => [] | S k => be_bytes' k (v / 256) ++ [v mod 256] end.
Definition dbl (l : list N) : list N :=
  let v := be_val' 0 l in
  be_bytes' 16 (N.lxor ((2 * v) mod (2 ^ 128)) (if 2 ^ 127 <=? v then 135 else 0)).

Fixpoint cmac_blocks (fuel : nat) (key k1 k2 x m : list N) : list N :=
  match fuel with
  | O => x
  | S f =>
    if Nat.leb (length m) 16 then
      if Nat.eqb (length m) 16 then aes128 key (xor_bytes x (xor_bytes m k1))
      else aes128 key (xor_bytes x (xor_bytes (m ++ 128 :: repeat 0 (Nat.sub 15 (length m))) k2))
    else cmac_blocks f key k1 k2 (aes128 key (xor_bytes x (firstn 16 m))) (skipn 16 m)
  end.
Definition aes_cmac (key m : list N) : list N :=
  let l := aes128 key (repeat 0 16) in
  let k1 := dbl l in
  let k2 := dbl k1 in
  cmac_blocks (S (Nat.div (length m) 16)) key k1 k2 (repeat 0 16) m.

(** test vectors *)
Definition hexs (l : list N) : list N := l.
Example fips197_c1 :
  aes128 [0;1;2;3;4;5;6;7;8;9;10;11;12;13;14;15]
         [0x00;0x11;0x22;0x33;0x44;0x55;0x66;0x77;0x88;0x99;0xaa;0xbb;0xcc;0xdd;0xee;0xff]
  = [0x69;0xc4;0xe0;0xd8;0x6a;0x7b;0x04;0x30;0xd8;0xcd;0xb7;0x80;0x70;0xb4;0xc5;0x5a].
Proof. vm_compute. reflexivity. Qed.

Definition rfc_key : list N :=
  [0x2b;0x7e;0x15;0x16;0x28;0xae;0xd2;0xa6;0xab;0xf7;0x15;0x88;0x09;0xcf;0x4f;0x3c].
Definition rfc_msg : list N :=
  [0x6b;0xc1;0xbe;0xe2;0x2e;0x40;0x9f;0x96;0xe9;0x3d;0x7e;0x11;0x73;0x93;0x17;0x2a;
   0xae;0x2d;0x8a;0x57;0x1e;0x03;0xac;0x9c;0x9e;0xb7;0x6f;0xac;0x45;0xaf;0x8e;0x51;
   0x30;0xc8;0x1c;0x46;0xa3;0x5c;0xe4;0x11;0xe5;0xfb;0xc1;0x19;0x1a;0x0a;0x52;0xef;
   0xf6;0x9f;0x24;0x45;0xdf;0x4f;0x9b;0x17;0xad;0x2b;0x41;0x7b;0xe6;0x6c;0x37;0x10].
Example rfc4493_subkeys :
  aes128 rfc_key (repeat 0 16) = [0x7d;0xf7;0x6b;0x0c;0x1a;0xb8;0x99;0xb3;0x3e;0x42;0xf0;0x47;0xb9;0x1b;0x54;0x6f]
  /\ dbl (aes128 rfc_key (repeat 0 16)) = [0xfb;0xee;0xd6;0x18;0x35;0x71;0x33;0x66;0x7c;0x85;0xe0;0x8f;0x72;0x36;0xa8;0xde]
  /\ dbl (dbl (aes128 rfc_key (repeat 0 16))) = [0xf7;0xdd;0xac;0x30;0x6a;0xe2;0x66;0xcc;0xf9;0x0b;0xc1;0x1e;0xe4;0x6d;0x51;0x3b].
Proof. vm_compute. repeat split; reflexivity. Qed.
Example rfc4493_ex1 :
  aes_cmac rfc_key [] = [0xbb;0x1d;0x69;0x29;0xe9;0x59;0x37;0x28;0x7f;0xa3;0x7d;0x12;0x9b;0x75;0x67;0x46].
Proof. vm_compute. reflexivity. Qed.
Example rfc4493_ex2 :
  aes_cmac rfc_key (firstn 16 rfc_msg) = [0x07;0x0a;0x16;0xb4;0x6b;0x4d;0x41;0x44;0xf7;0x9b;0xdd;0x9d;0xd0;0x4a;0x28;0x7c].
Proof. vm_compute. reflexivity. Qed.
Example rfc4493_ex3 :
  aes_cmac rfc_key (firstn 40 rfc_msg) = [0xdf;0xa6;0x67;0x47;0xde;0x9a;0xe6;0x30;0x30;0xca;0x32;0x61;0x14;0x97;0xc8;0x27].
Proof. vm_compute. reflexivity. Qed.
Example rfc4493_ex4 :
  aes_cmac rfc_key rfc_msg = [0x51;0xf0;0xbe;0xbf;0x7e;0x3b;0x9d;0x92;0xfc;0x49;0x74;0x17;0x79;0x36;0x3c;0xfe].
Proof. vm_compute. reflexivity. Qed.
