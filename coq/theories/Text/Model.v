(** Model of the text forms of the sciparse identifier and address types (C15):
      crates/libs/sciparse/src/scion/identifier/{isd,asn,isd_asn}.rs
      crates/libs/sciparse/src/scion/address/{host_addr,addr,ip_addr,socket_addr,ip_socket_addr}.rs
    ([FromStr::from_str] and [Display::fmt] of every type).  Definitions only, statement by
    statement.

    Strings are byte lists ([list N], the UTF-8 encoding of the Rust [&str]).  The [str]
    primitives the code uses ([split_once], [rsplit_once], [splitn], [starts_with],
    [ends_with], byte-index slicing) are modelled on bytes; all patterns searched for are
    ASCII, so byte search and char search coincide on valid UTF-8.  Byte-index slicing keeps
    Rust's panic conditions (range inverted / out of bounds / not on a char boundary) as an
    explicit [Panic] outcome, and so do [usize] underflow and [expect].

    std integer parsing ([u16::from_str], [u64::from_str], [u16::from_str_radix(_, 16)]) is
    modelled as std does it.  [Ipv4Addr] / [Ipv6Addr] parsing and display are std-library code
    and are NOT modelled: they are the four fields of an [iporacle] (a lookup table supplied
    by the harness in the correspondence check, universally quantified with the round-trip
    hypotheses in the theorems).

    The model is of the REPAIRED [parse_socket_addr] (C15 fix of the bracket test); the
    original test is kept under [fixed := false] for the witnesses in [Findings].  Likewise
    for the repaired trailing-comma acceptance of the TXT record parser. *)
From Sci Require Export Common.Outcome.
From Sci Require Export Gen.TextConfig.
Local Open Scope N_scope.

Definition str := list N.
Definition len (s : str) : N := N.of_nat (length s).
Definition str_eqb (a b : str) : bool := list_eqb N.eqb a b.

(* ASCII *)
Definition c_plus := 43. Definition c_comma := 44. Definition c_dash := 45. Definition c_colon := 58.
Definition c_lbr := 91. Definition c_rbr := 93. Definition c_us := 95.

(* panic sites *)
Definition P_SLICE := 1.   (* str index: range or char boundary *)
Definition P_SUB := 2.     (* usize subtraction underflow *)
Definition P_EXPECT := 3.  (* Option::expect on None *)
Definition P_FUEL := 9.    (* model artefact: loop fuel exhausted (proved unreachable) *)

(** ** [str] primitives *)

(** [str::split_once(c)]: split at the first occurrence *)
Fixpoint split_once (c : N) (s : str) : option (str * str) :=
  match s with
  | [] => None
  | b :: r =>
    if b =? c then Some ([], r)
    else match split_once c r with Some (a, t) => Some (b :: a, t) | None => None end
  end.

(** [str::rsplit_once(c)]: split at the last occurrence *)
Definition rsplit_once (c : N) (s : str) : option (str * str) :=
  match split_once c (rev s) with Some (a, b) => Some (rev b, rev a) | None => None end.

(** [str::splitn(n, c)] collected: at most [n] pieces, the last one is the unsplit rest *)
Fixpoint splitn (n : nat) (c : N) (s : str) : list str :=
  match n with
  | O => []
  | S k =>
    match k with
    | O => [s]
    | S _ => match split_once c s with None => [s] | Some (a, r) => a :: splitn k c r end
    end
  end.

Definition starts_with (c : N) (s : str) : bool :=
  match s with b :: _ => b =? c | [] => false end.
Definition ends_with (c : N) (s : str) : bool := starts_with c (rev s).

Fixpoint count (c : N) (s : str) : N :=
  match s with [] => 0 | b :: r => (if b =? c then 1 else 0) + count c r end.

(** [str::is_char_boundary]: start, end, or a byte that is not a UTF-8 continuation byte *)
Definition is_char_boundary (s : str) (i : N) : bool :=
  (i =? 0) || (i =? len s) ||
  match nth_error s (N.to_nat i) with Some b => (b <? 128) || (192 <=? b) | None => false end.

(** [&s[lo..hi]] *)
Definition str_slice {E} (s : str) (lo hi : N) : outcome str E :=
  if (lo <=? hi) && (hi <=? len s) && is_char_boundary s lo && is_char_boundary s hi
  then Ok (firstn (N.to_nat (hi - lo)) (skipn (N.to_nat lo) s))
  else Panic P_SLICE.

(** ** std integer parsing: [from_str_radix] for an unsigned type with maximum [max] *)

(** [char::to_digit(radix)] on a byte (non-ASCII bytes are never digits) *)
Definition digit_val (radix b : N) : option N :=
  if (48 <=? b) && (b <=? 57) then (if b - 48 <? radix then Some (b - 48) else None)
  else if (97 <=? b) && (b <=? 122) then (if b - 87 <? radix then Some (b - 87) else None)
  else if (65 <=? b) && (b <=? 90) then (if b - 55 <? radix then Some (b - 55) else None)
  else None.

(** checked multiply-add over the digits: any invalid digit or any overflow is an error *)
Fixpoint parse_digits (radix max acc : N) (s : str) : option N :=
  match s with
  | [] => Some acc
  | b :: r =>
    match digit_val radix b with
    | None => None
    | Some d => let acc' := acc * radix + d in
                if max <? acc' then None else parse_digits radix max acc' r
    end
  end.

(** empty -> error; a lone sign -> error; one leading '+' is skipped; '-' is not a digit of
    an unsigned type *)
Definition parse_uint (radix max : N) (s : str) : option N :=
  match s with
  | [] => None
  | b :: r =>
    match r with
    | [] => if (b =? c_plus) || (b =? c_dash) then None else parse_digits radix max 0 s
    | _ :: _ => if b =? c_plus then parse_digits radix max 0 r else parse_digits radix max 0 s
    end
  end.

(** ** integer formatting ([{}] and [{:x}]) *)
Definition digit_char (d : N) : N := if d <? 10 then 48 + d else 87 + d.
Fixpoint le_digits (fuel : nat) (radix v : N) : list N :=
  match fuel with
  | O => []
  | S f => if v =? 0 then [] else (v mod radix) :: le_digits f radix (v / radix)
  end.
Definition to_digits (radix v : N) : str :=
  if v =? 0 then [48] else map digit_char (rev (le_digits (S (N.to_nat (N.log2 v))) radix v)).

(** ** errors: [AddressParseError] variants, plus the two foreign error types *)
Inductive perr :=
| EIsd | EAsn | EIsdAsn | EService | EHostAddr | EScion | EScionV4 | EScionV6 | EScionSvc
| ESocket | ESocketV4 | ESocketV6 | ESocketSvc
| ESvcStr    (* ServiceAddr::from_str: &'static str *)
| ETxt (code : N).   (* resolver/txt.rs TxtParseError variant 1..7; 0 = record without the scion=v1; prefix *)

Definition res (A : Type) := outcome A perr.

(** ** identifier/isd.rs *)
Definition parse_isd (s : str) : res N :=
  match parse_uint 10 U16_MAX s with Some v => Ok v | None => Err EIsd end.
Definition display_isd (v : N) : str := to_digits 10 v.

(** ** identifier/asn.rs *)
Definition asn_new_checked (v : N) : option N := if ASN_MAX <? v then None else Some v.

Definition asn_fold_step (acc : option (N * N)) (part : str) : option (N * N) :=
  match acc with
  | None => None
  | Some (asn_value, n_parts) =>
    match parse_uint 16 U16_MAX part with
    | Some value => Some (N.lor ((N.shiftl asn_value ASN_BITS_PER_PART) mod 2 ^ 64) value, n_parts + 1)
    | None => None
    end
  end.

Definition parse_asn (s : str) : res N :=
  match parse_uint 10 U64_MAX s with
  | Some bgp_asn => if bgp_asn <=? U32_MAX then Ok bgp_asn else Err EAsn
  | None =>
    match fold_left asn_fold_step (splitn (N.to_nat ASN_NUMBER_PARTS) c_colon s) (Some (0, 0)) with
    | Some (val, n) =>
      if n =? ASN_NUMBER_PARTS then
        match asn_new_checked val with Some a => Ok a | None => Err EAsn end
      else Err EAsn
    | None => Err EAsn
    end
  end.

Definition asn_part (v i : N) : N := N.land (N.shiftr v (ASN_BITS_PER_PART * i)) U16_MAX.
Definition display_asn_hex (v : N) : str :=
  to_digits 16 (asn_part v 2) ++ [c_colon] ++ to_digits 16 (asn_part v 1) ++ [c_colon] ++
  to_digits 16 (asn_part v 0).
Definition display_asn (v : N) : str :=
  if v <=? U32_MAX then to_digits 10 v else display_asn_hex v.

(** ** identifier/isd_asn.rs *)
Definition ia_new (isd asn : N) : N := N.lor (N.shiftl isd ASN_BITS) asn.
Definition ia_isd (v : N) : N := (N.shiftr v ASN_BITS) mod 2 ^ 16.
Definition ia_asn (v : N) : N := N.land v ASN_MAX.

Definition parse_ia (s : str) : res N :=
  let n_separators := N.min 2 (count c_dash s) in
  if negb (n_separators =? 1) then Err EIsdAsn else
  match split_once c_dash s with
  | None => Panic P_EXPECT
  | Some (isd_str, asn_str) =>
    match parse_isd isd_str, parse_asn asn_str with
    | Panic p, _ => Panic p
    | _, Panic p => Panic p
    | Ok isd, Ok asn => Ok (ia_new isd asn)
    | _, _ => Err EIsdAsn
    end
  end.
Definition display_ia (v : N) : str := display_isd (ia_isd v) ++ [c_dash] ++ display_asn (ia_asn v).

(** ** address/host_addr.rs: ServiceAddr *)
Definition s_A : str := [65].
Definition s_M : str := [77].
Definition s_uM : str := [95; 77].
Definition s_SVC_open : str := [60; 83; 86; 67; 58; 48; 120].   (* "<SVC:0x" *)
Definition s_gt : str := [62].

Definition svc_is_multicast (s : N) : bool := N.land s SVC_MCAST =? SVC_MCAST.
Definition svc_to_multicast (s : N) : N := N.lor s SVC_MCAST.
Definition svc_to_anycast (s : N) : N := N.land s (SVC_MCAST - 1).

(** [{value:#06x}]: "0x" and the hex digits zero-padded to total width 6 *)
Definition pad_hex4 (v : N) : str :=
  let d := to_digits 16 v in repeat 48 (4 - length d) ++ d.

Definition display_svc (s : N) : str :=
  let a := svc_to_anycast s in
  (if a =? SVC_DS then s_DS else if a =? SVC_CS then s_CS else if a =? SVC_WILDCARD then s_Wildcard
   else s_SVC_open ++ pad_hex4 a ++ s_gt)
  ++ (if svc_is_multicast s then s_uM else []).

Definition parse_svc (s : str) : res N :=
  let '(service, suffix) := match split_once c_us s with Some p => p | None => (s, s_A) end in
  let address :=
    if str_eqb service s_CS then Some SVC_CS
    else if str_eqb service s_DS then Some SVC_DS
    else if str_eqb service s_Wildcard then Some SVC_WILDCARD else None in
  match address with
  | None => Err ESvcStr
  | Some a =>
    if str_eqb suffix s_A then Ok a
    else if str_eqb suffix s_M then Ok (svc_to_multicast a) else Err ESvcStr
  end.

(** ** std IP text syntax: not modelled *)
Record iporacle := mkIp {
  ip4_parse : str -> option N;  ip6_parse : str -> option N;
  ip4_display : N -> str;       ip6_display : N -> str }.

Inductive host := H4 (a : N) | H6 (a : N) | HS (s : N).

Definition parse_host (O : iporacle) (s : str) : res host :=
  match ip4_parse O s with
  | Some a => Ok (H4 a)
  | None =>
    match ip6_parse O s with
    | Some a => Ok (H6 a)
    | None => match parse_svc s with Ok v => Ok (HS v) | Panic p => Panic p | Err _ => Err EHostAddr end
    end
  end.
Definition display_host (O : iporacle) (h : host) : str :=
  match h with H4 a => ip4_display O a | H6 a => ip6_display O a | HS s => display_svc s end.

(** ** address/addr.rs *)
Inductive hkind := KSvc | KV4 | KV6.

(** [host_str.parse::<T>()] for T = ServiceAddr / Ipv4Addr / Ipv6Addr *)
Definition parse_hk (O : iporacle) (k : hkind) (s : str) : res host :=
  match k with
  | KSvc => match parse_svc s with Ok v => Ok (HS v) | Panic p => Panic p | Err e => Err e end
  | KV4 => match ip4_parse O s with Some a => Ok (H4 a) | None => Err ESvcStr end
  | KV6 => match ip6_parse O s with Some a => Ok (H6 a) | None => Err ESvcStr end
  end.
(** sic: the V4/V6 variants report Socket* errors *)
Definition hk_err (k : hkind) : perr :=
  match k with KSvc => EService | KV4 => ESocketV4 | KV6 => ESocketV6 end.

Definition parse_scion_addr (O : iporacle) (k : hkind) (s : str) : res (N * host) :=
  match splitn 2 c_comma s with
  | isd_asn_str :: host_str :: _ =>
    isd_asn <- parse_ia isd_asn_str ;;
    match parse_hk O k host_str with
    | Ok h => Ok (isd_asn, h)
    | Panic p => Panic p
    | Err _ => Err (hk_err k)
    end
  | _ => Err EScion
  end.

Definition display_scion_addr (O : iporacle) (ia : N) (h : host) : str :=
  display_ia ia ++ [c_comma] ++ display_host O h.

(** [a.or_else(|_| b).or_else(|_| c).map_err(|_| e)]: first success wins, later
    alternatives are not evaluated *)
Fixpoint first_ok {A} (alts : list (res A)) (e : perr) : res A :=
  match alts with
  | [] => Err e
  | Ok a :: _ => Ok a
  | Panic p :: _ => Panic p
  | Err _ :: r => first_ok r e
  end.

Definition parse_addr_any (O : iporacle) (s : str) : res (N * host) :=
  first_ok [parse_scion_addr O KSvc s; parse_scion_addr O KV4 s; parse_scion_addr O KV6 s] EScion.
Definition parse_addr_ip (O : iporacle) (s : str) : res (N * host) :=
  first_ok [parse_scion_addr O KV4 s; parse_scion_addr O KV6 s] EScion.

(** ** address/socket_addr.rs *)
Definition bracket_reject (fixed : bool) (a : str) : bool :=
  if fixed then negb (starts_with c_lbr a && ends_with c_rbr a)     (* repaired *)
  else negb (starts_with c_lbr a) && ends_with c_rbr a.             (* original: precedence slip *)

Definition parse_socket_addr_gen (fixed : bool) (O : iporacle) (k : hkind) (e : perr) (s : str)
  : res (N * host * N) :=
  match rsplit_once c_colon s with
  | None => Err e
  | Some (bracketed_addr, port) =>
    if bracket_reject fixed bracketed_addr then Err e else
    if len bracketed_addr =? 0 then Panic P_SUB else
    inner <- str_slice bracketed_addr 1 (len bracketed_addr - 1) ;;
    match parse_scion_addr O k inner with
    | Panic p => Panic p
    | Err _ => Err e
    | Ok (ia, h) =>
      match parse_uint 10 U16_MAX port with
      | None => Err e
      | Some p => Ok (ia, h, p)
      end
    end
  end.
Definition parse_socket_addr := parse_socket_addr_gen true.

Definition sock_err (k : hkind) : perr :=
  match k with KSvc => ESocketSvc | KV4 => ESocketV4 | KV6 => ESocketV6 end.
Definition parse_sock_k (O : iporacle) (k : hkind) (s : str) := parse_socket_addr O k (sock_err k) s.

Definition display_socket_addr (O : iporacle) (ia : N) (h : host) (port : N) : str :=
  [c_lbr] ++ display_ia ia ++ [c_comma] ++ display_host O h ++ [c_rbr; c_colon] ++ to_digits 10 port.

Definition parse_sock_any (O : iporacle) (s : str) : res (N * host * N) :=
  first_ok [parse_sock_k O KSvc s; parse_sock_k O KV4 s; parse_sock_k O KV6 s] ESocket.
Definition parse_sock_ip (O : iporacle) (s : str) : res (N * host * N) :=
  first_ok [parse_sock_k O KV4 s; parse_sock_k O KV6 s] ESocket.

(** ** scion-stack resolver/txt.rs: TXT records "scion=v1;[ia,host],[ia,host]..." *)

(** [char::is_whitespace] (Unicode White_Space) on the UTF-8 encoding: U+0009..U+000D, U+0020;
    U+0085, U+00A0; U+1680, U+2000..U+200A, U+2028, U+2029, U+202F, U+205F, U+3000 *)
Definition ws1 (b : N) : bool := ((9 <=? b) && (b <=? 13)) || (b =? 32).
Definition ws2 (b c : N) : bool := (b =? 194) && ((c =? 133) || (c =? 160)).
Definition ws3 (b c d : N) : bool :=
  ((b =? 225) && (c =? 154) && (d =? 128)) ||
  ((b =? 226) && (c =? 128) && (((128 <=? d) && (d <=? 138)) || (d =? 168) || (d =? 169) || (d =? 175))) ||
  ((b =? 226) && (c =? 129) && (d =? 159)) ||
  ((b =? 227) && (c =? 128) && (d =? 128)).

(** [str::trim_start] *)
Fixpoint trim_start (s : str) : str :=
  match s with
  | [] => []
  | b :: r =>
    if ws1 b then trim_start r else
    match r with
    | [] => s
    | c :: r1 =>
      if ws2 b c then trim_start r1 else
      match r1 with
      | [] => s
      | d :: r2 => if ws3 b c d then trim_start r2 else s
      end
    end
  end.
(** [str::trim_end] on the reversed string (the last byte first) *)
Fixpoint trim_end_rev (r : str) : str :=
  match r with
  | [] => []
  | b :: t =>
    if ws1 b then trim_end_rev t else
    match t with
    | [] => r
    | c :: t1 =>
      if ws2 c b then trim_end_rev t1 else
      match t1 with
      | [] => r
      | d :: t2 => if ws3 d c b then trim_end_rev t2 else r
      end
    end
  end.
Definition trim (s : str) : str := rev (trim_end_rev (rev (trim_start s))).

Fixpoint strip_prefix (p s : str) : option str :=
  match p, s with
  | [], _ => Some s
  | a :: p', b :: s' => if a =? b then strip_prefix p' s' else None
  | _ :: _, [] => None
  end.

(** [str::find(c)]: byte index of the first occurrence *)
Fixpoint find_idx (c : N) (s : str) : option N :=
  match s with
  | [] => None
  | b :: r => if b =? c then Some 0 else match find_idx c r with Some i => Some (i + 1) | None => None end
  end.

Definition is_empty {A} (s : list A) : bool := match s with [] => true | _ => false end.

(** [IpAddr::from_str] *)
Definition ip_from_str (O : iporacle) (s : str) : option host :=
  match ip4_parse O s with
  | Some a => Some (H4 a)
  | None => match ip6_parse O s with Some a => Some (H6 a) | None => None end
  end.

(** the [while !remaining.is_empty()] loop of [parse_txt_payload]; [acc] is [addresses]
    reversed.  Every iteration consumes at least two bytes, so [S (length payload)] is
    enough fuel. *)
Fixpoint txt_loop (fuel : nat) (fixed : bool) (O : iporacle) (remaining : str) (acc : list (N * host))
  : res (list (N * host)) :=
  match fuel with
  | O => Panic P_FUEL
  | S f =>
    if is_empty remaining then Ok (rev acc) else
    if negb (starts_with c_lbr remaining) then Err (ETxt 2) else
    match find_idx c_rbr remaining with
    | None => Err (ETxt 3)
    | Some close_idx =>
      entry0 <- str_slice remaining 1 close_idx ;;
      rest0 <- str_slice remaining (close_idx + 1) (len remaining) ;;
      let entry := trim entry0 in
      let rest := trim rest0 in
      match split_once c_comma entry with
      | None => Err (ETxt 4)
      | Some (isd_asn_str, host_str) =>
        match parse_ia (trim isd_asn_str) with
        | Panic p => Panic p
        | Err _ => Err (ETxt 5)
        | Ok isd_asn =>
          match ip_from_str O (trim host_str) with
          | None => Err (ETxt 6)
          | Some host =>
            let acc' := (isd_asn, host) :: acc in
            if is_empty rest then Ok (rev acc') else
            if negb (starts_with c_comma rest) then Err (ETxt 7) else
            rest1 <- str_slice rest 1 (len rest) ;;
            let remaining' := trim rest1 in
            (* C15 repair: a separator must be followed by another entry *)
            if fixed && is_empty remaining' then Err (ETxt 2) else
            txt_loop f fixed O remaining' acc'
          end
        end
      end
    end
  end.

Definition parse_txt_payload_gen (fixed : bool) (O : iporacle) (payload : str) : res (list (N * host)) :=
  let remaining := trim payload in
  if is_empty remaining then Err (ETxt 1) else txt_loop (S (length remaining)) fixed O remaining [].

(** [resolve_txt_records_with_invalid]: records without the prefix are skipped *)
Definition parse_txt_record_gen (fixed : bool) (O : iporacle) (record : str) : res (list (N * host)) :=
  match strip_prefix SCION_TXT_PREFIX record with
  | None => Err (ETxt 0)
  | Some payload => parse_txt_payload_gen fixed O payload
  end.
Definition parse_txt_payload := parse_txt_payload_gen true.
Definition parse_txt_record := parse_txt_record_gen true.

(** the record format of the module documentation *)
Fixpoint display_txt_entries (O : iporacle) (l : list (N * host)) : str :=
  match l with
  | [] => []
  | [(ia, h)] => [c_lbr] ++ display_scion_addr O ia h ++ [c_rbr]
  | (ia, h) :: r => [c_lbr] ++ display_scion_addr O ia h ++ [c_rbr; c_comma] ++ display_txt_entries O r
  end.
Definition display_txt (O : iporacle) (l : list (N * host)) : str :=
  SCION_TXT_PREFIX ++ display_txt_entries O l.

(** ** the fifteen [FromStr] / [Display] pairs, and the TXT record parser, under one roof *)
Inductive val :=
| VNum (n : N) | VHost (h : host) | VAddr (ia : N) (h : host) | VSock (ia : N) (h : host) (port : N)
| VList (l : list (N * host)).

Definition K_ISD := 0. Definition K_ASN := 1. Definition K_IA := 2. Definition K_SVC := 3.
Definition K_HOST := 4. Definition K_ADDR_SVC := 5. Definition K_ADDR_V4 := 6.
Definition K_ADDR_V6 := 7. Definition K_ADDR := 8. Definition K_IPADDR := 9.
Definition K_SOCK_SVC := 10. Definition K_SOCK_V4 := 11. Definition K_SOCK_V6 := 12.
Definition K_SOCK := 13. Definition K_IPSOCK := 14. Definition K_TXT := 15.

Definition omap {A B} (f : A -> B) (o : res A) : res B :=
  match o with Ok a => Ok (f a) | Err e => Err e | Panic p => Panic p end.
Definition vaddr (p : N * host) : val := VAddr (fst p) (snd p).
Definition vsock (p : N * host * N) : val := VSock (fst (fst p)) (snd (fst p)) (snd p).

Definition parse_kind_gen (fixed : bool) (O : iporacle) (k : N) (s : str) : res val :=
  if k =? K_ISD then omap VNum (parse_isd s)
  else if k =? K_ASN then omap VNum (parse_asn s)
  else if k =? K_IA then omap VNum (parse_ia s)
  else if k =? K_SVC then omap VNum (parse_svc s)
  else if k =? K_HOST then omap VHost (parse_host O s)
  else if k =? K_ADDR_SVC then omap vaddr (parse_scion_addr O KSvc s)
  else if k =? K_ADDR_V4 then omap vaddr (parse_scion_addr O KV4 s)
  else if k =? K_ADDR_V6 then omap vaddr (parse_scion_addr O KV6 s)
  else if k =? K_ADDR then omap vaddr (parse_addr_any O s)
  else if k =? K_IPADDR then omap vaddr (parse_addr_ip O s)
  else if k =? K_SOCK_SVC then omap vsock (parse_socket_addr_gen fixed O KSvc ESocketSvc s)
  else if k =? K_SOCK_V4 then omap vsock (parse_socket_addr_gen fixed O KV4 ESocketV4 s)
  else if k =? K_SOCK_V6 then omap vsock (parse_socket_addr_gen fixed O KV6 ESocketV6 s)
  else if k =? K_SOCK then
    omap vsock (first_ok [parse_socket_addr_gen fixed O KSvc ESocketSvc s;
                          parse_socket_addr_gen fixed O KV4 ESocketV4 s;
                          parse_socket_addr_gen fixed O KV6 ESocketV6 s] ESocket)
  else if k =? K_TXT then omap VList (parse_txt_record_gen fixed O s)
  else
    omap vsock (first_ok [parse_socket_addr_gen fixed O KV4 ESocketV4 s;
                          parse_socket_addr_gen fixed O KV6 ESocketV6 s] ESocket).
Definition parse_kind := parse_kind_gen true.

(** which host variants a type can hold *)
Definition host_fits (k : N) (h : host) : bool :=
  match h with
  | HS _ => (k =? K_HOST) || (k =? K_ADDR_SVC) || (k =? K_ADDR) || (k =? K_SOCK_SVC) || (k =? K_SOCK)
  | H4 _ => (k =? K_HOST) || (k =? K_ADDR_V4) || (k =? K_ADDR) || (k =? K_IPADDR) ||
            (k =? K_SOCK_V4) || (k =? K_SOCK) || (k =? K_IPSOCK)
  | H6 _ => (k =? K_HOST) || (k =? K_ADDR_V6) || (k =? K_ADDR) || (k =? K_IPADDR) ||
            (k =? K_SOCK_V6) || (k =? K_SOCK) || (k =? K_IPSOCK)
  end.

(** Display; [None] when the type cannot hold the value *)
Definition display_kind (O : iporacle) (k : N) (v : val) : option str :=
  match v with
  | VNum n =>
    if k =? K_ISD then Some (display_isd n) else if k =? K_ASN then Some (display_asn n)
    else if k =? K_IA then Some (display_ia n) else if k =? K_SVC then Some (display_svc n) else None
  | VHost h => if k =? K_HOST then Some (display_host O h) else None
  | VAddr ia h => if (5 <=? k) && (k <=? 9) && host_fits k h then Some (display_scion_addr O ia h) else None
  | VSock ia h p => if (10 <=? k) && (k <=? 14) && host_fits k h then Some (display_socket_addr O ia h p) else None
  | VList l =>
    if (k =? K_TXT) && negb (is_empty l) && forallb (fun p => match snd p with HS _ => false | _ => true end) l
    then Some (display_txt O l) else None
  end.
