(** Witnesses, by computation on the model, for (a) the repaired defect of
    [parse_socket_addr] (on the model of the ORIGINAL bracket test, [fixed := false]) and
    (b) the recorded known finding C15-svc-unnamed (known_findings/C15.json). *)
From Sci Require Import Text.Model Text.Spec Text.Cases.
Local Open Scope N_scope.

(** an oracle table for std's IP syntax, sufficient for the witnesses: "10.0.0.1" *)
Definition s_10_0_0_1 : str := [49; 48; 46; 48; 46; 48; 46; 49].
Definition O1 : iporacle :=
  mkIp (fun s => if str_eqb s s_10_0_0_1 then Some 167772161 else None) (fun _ => None)
       (fun _ => s_10_0_0_1) (fun _ => []).

(** ":80" *)
Lemma original_colon80_panics :
  parse_kind_gen false O1 K_SOCK [58; 56; 48] = Panic P_SUB.
Proof. vm_compute. reflexivity. Qed.
Lemma repaired_colon80_rejected :
  parse_kind O1 K_SOCK [58; 56; 48] = Err ESocket.
Proof. vm_compute. reflexivity. Qed.

(** "é:80": the slice [1..len-1] is not on a char boundary *)
Lemma original_multibyte_panics :
  parse_kind_gen false O1 K_SOCK [195; 169; 58; 56; 48] = Panic P_SLICE.
Proof. vm_compute. reflexivity. Qed.

(** "x1-ff00:0:110,10.0.0.1y:1000": first and last character silently dropped *)
Definition s_garbage : str :=
  [120; 49; 45; 102; 102; 48; 48; 58; 48; 58; 49; 49; 48; 44; 49; 48; 46; 48; 46; 48; 46; 49; 121; 58; 49; 48; 48; 48].
Lemma original_garbage_accepted :
  parse_kind_gen false O1 K_SOCK s_garbage = Ok (VSock 561850441793808 (H4 167772161) 1000)
  /\ exact_ok O1 K_SOCK s_garbage (VSock 561850441793808 (H4 167772161) 1000) = false.
Proof. vm_compute. split; reflexivity. Qed.
Lemma repaired_garbage_rejected : parse_kind O1 K_SOCK s_garbage = Err ESocket.
Proof. vm_compute. reflexivity. Qed.

(** C15-svc-unnamed: ServiceAddr(3) is displayed as "<SVC:0x0003>", which does not parse *)
Lemma svc_unnamed_roundtrip_refuted :
  svc_named 3 = false /\ val_wf K_SVC (VNum 3) = true /\
  display_svc 3 = [60; 83; 86; 67; 58; 48; 120; 48; 48; 48; 51; 62] /\
  parse_svc (display_svc 3) = Err ESvcStr.
Proof. vm_compute. repeat split; reflexivity. Qed.

Lemma svc_unnamed_sock_roundtrip_refuted :
  exists v, val_wf K_SOCK v = true /\ val_named K_SOCK v = false /\
    match display_kind O1 K_SOCK v with Some d => parse_kind O1 K_SOCK d | None => Ok v end = Err ESocket.
Proof.
  exists (VSock 281474976710657 (HS 65535) 80). vm_compute. repeat split; reflexivity.
Qed.

(** the repaired trailing-comma acceptance of the TXT record parser:
    "scion=v1;[1-1,10.0.0.1]," was accepted by the original loop *)
Definition s_txt_trailing : str :=
  SCION_TXT_PREFIX ++ [91; 49; 45; 49; 44] ++ s_10_0_0_1 ++ [93; 44].
Lemma original_txt_trailing_comma_accepted :
  parse_kind_gen false O1 K_TXT s_txt_trailing = Ok (VList [(281474976710657, H4 167772161)])
  /\ exact_ok O1 K_TXT s_txt_trailing (VList [(281474976710657, H4 167772161)]) = false.
Proof. vm_compute. split; reflexivity. Qed.
Lemma repaired_txt_trailing_comma_rejected : parse_kind O1 K_TXT s_txt_trailing = Err (ETxt 2).
Proof. vm_compute. reflexivity. Qed.

(** why [parse_never_panics] needs [utf8_ok]: on a byte list that is not UTF-8 ('[' followed by a
    continuation byte) the model's slice is off a char boundary.  Such a [&str] cannot exist in
    safe Rust. *)
Lemma invalid_utf8_slice :
  utf8_ok [91; 128; 93; 58; 49] = false /\ parse_kind O1 K_SOCK [91; 128; 93; 58; 49] = Panic P_SLICE.
Proof. vm_compute. split; reflexivity. Qed.

(** why [asn_display_parse] is stated for 48-bit values: the tuple field of [Asn] is public,
    [Display] masks each group to 16 bits, so Asn(2^48) prints as "0:0:0" *)
Lemma asn_out_of_range_display :
  display_asn (2 ^ 48) = [48; 58; 48; 58; 48] /\ parse_asn (display_asn (2 ^ 48)) = Ok 0.
Proof. vm_compute. split; reflexivity. Qed.
