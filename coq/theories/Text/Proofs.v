(** Lemmas for C15.  Part A: positional number systems (printing / std parsing round trip and
    uniqueness of the canonical digit string).  Part B: the splitting primitives.  Part C: the
    identifier types.  Part D: the address types. *)
From Coq Require Import Lia ZifyBool ZifyNat ZifyN.
From Sci Require Import Text.Model Text.Spec.
Ltac Zify.zify_post_hook ::= Z.div_mod_to_equations.
Local Open Scope N_scope.
Arguments N.add : simpl never. Arguments N.sub : simpl never. Arguments N.mul : simpl never.
Arguments N.div : simpl never. Arguments N.modulo : simpl never. Arguments N.pow : simpl never.
Arguments N.eqb : simpl never. Arguments N.ltb : simpl never. Arguments N.leb : simpl never.
Arguments N.shiftl : simpl never. Arguments N.shiftr : simpl never.
Arguments N.land : simpl never. Arguments N.lor : simpl never.

(** * Part A: digits *)

Definition be_value (r acc : N) (ds : list N) : N := fold_left (fun a d => a * r + d) ds acc.
Fixpoint le_value (r : N) (ds : list N) : N :=
  match ds with [] => 0 | d :: t => d + r * le_value r t end.

Lemma be_value_app r acc a b : be_value r acc (a ++ b) = be_value r (be_value r acc a) b.
Proof. unfold be_value. apply fold_left_app. Qed.

Lemma be_value_rev r ds : be_value r 0 (rev ds) = le_value r ds.
Proof.
  induction ds as [|d t IH]; [reflexivity|].
  cbn [rev le_value]. rewrite be_value_app, IH. cbn. lia.
Qed.

Lemma be_value_ge r acc ds : 1 <= r -> acc <= be_value r acc ds.
Proof.
  intros Hr. revert acc. induction ds as [|d t IH]; intros acc; [cbn; lia|].
  cbn [be_value fold_left]. specialize (IH (acc * r + d)). unfold be_value in IH. nia.
Qed.

Lemma le_digits_value r fuel v :
  2 <= r -> v < 2 ^ N.of_nat fuel -> le_value r (le_digits fuel r v) = v.
Proof.
  intros Hr. revert v. induction fuel as [|f IH]; intros v Hv.
  - change (2 ^ N.of_nat 0) with 1 in Hv. cbn. lia.
  - cbn [le_digits]. destruct (v =? 0) eqn:E; [cbn; lia|].
    cbn [le_value]. rewrite IH.
    + pose proof (N.div_mod' v r). lia.
    + rewrite Nat2N.inj_succ, N.pow_succ_r' in Hv.
      apply N.div_lt_upper_bound; [lia|]. nia.
Qed.

Lemma le_digits_lt r fuel v : 1 <= r -> Forall (fun d => d < r) (le_digits fuel r v).
Proof.
  intros Hr. revert v. induction fuel as [|f IH]; intros v; cbn [le_digits]; [constructor|].
  destruct (v =? 0); [constructor|]. constructor; [apply N.mod_lt; lia|apply IH].
Qed.

Lemma log2_fuel v : v <> 0 -> v < 2 ^ N.of_nat (S (N.to_nat (N.log2 v))).
Proof.
  intros Hv. rewrite Nat2N.inj_succ, N2Nat.id. apply N.log2_spec. lia.
Qed.

(** uniqueness: a little-endian digit list without a trailing zero is the one [le_digits] computes *)
Lemma le_value_pos r l : 1 <= r -> l <> [] -> last l 1 <> 0 -> le_value r l <> 0.
Proof.
  intros Hr. induction l as [|d t IH]; [congruence|]. intros _ Hl.
  destruct t as [|e t']; [cbn in *; lia|].
  cbn [le_value]. change (last (d :: e :: t') 1) with (last (e :: t') 1) in Hl.
  specialize (IH ltac:(discriminate) Hl). cbn [le_value] in IH. nia.
Qed.

Lemma le_digits_unique r l : 2 <= r ->
  Forall (fun d => d < r) l -> last l 1 <> 0 ->
  forall fuel, le_value r l < 2 ^ N.of_nat fuel -> le_digits fuel r (le_value r l) = l.
Proof.
  intros Hr. induction l as [|d t IH]; intros Hf Hl fuel Hv.
  - destruct fuel; reflexivity.
  - assert (Hnz : le_value r (d :: t) <> 0) by (apply le_value_pos; [lia|discriminate|exact Hl]).
    destruct fuel as [|f]; [change (2 ^ N.of_nat 0) with 1 in Hv; lia|].
    cbn [le_digits]. destruct (le_value r (d :: t) =? 0) eqn:E; [lia|].
    inversion Hf as [|? ? Hd Ht]; subst.
    assert (Hl' : last t 1 <> 0) by (destruct t; [cbn; lia|exact Hl]).
    cbn [le_value] in *.
    assert (Hm : (d + r * le_value r t) mod r = d).
    { replace (d + r * le_value r t) with (d + le_value r t * r) by lia.
      rewrite N.mod_add by lia. apply N.mod_small; exact Hd. }
    assert (Hq : (d + r * le_value r t) / r = le_value r t).
    { replace (d + r * le_value r t) with (d + le_value r t * r) by lia.
      rewrite N.div_add by lia. rewrite N.div_small by exact Hd. lia. }
    rewrite Hm, Hq. f_equal. apply IH; auto.
    rewrite Nat2N.inj_succ, N.pow_succ_r' in Hv. nia.
Qed.

(** ** characters *)
Definition lhexb (c : N) : bool := ((48 <=? c) && (c <=? 57)) || ((97 <=? c) && (c <=? 102)).

Lemma digit_val_char r d : d < r -> r <= 36 -> digit_val r (digit_char d) = Some d.
Proof.
  intros Hd Hr. unfold digit_val, digit_char.
  destruct (d <? 10) eqn:E.
  - replace ((48 <=? 48 + d) && (48 + d <=? 57)) with true by lia.
    replace (48 + d - 48) with d by lia. replace (d <? r) with true by lia. reflexivity.
  - replace ((48 <=? 87 + d) && (87 + d <=? 57)) with false by lia.
    replace ((97 <=? 87 + d) && (87 + d <=? 122)) with true by lia.
    replace (87 + d - 87) with d by lia. replace (d <? r) with true by lia. reflexivity.
Qed.

Lemma digit_char_lhex d : d < 16 -> lhexb (digit_char d) = true.
Proof. intros H. unfold lhexb, digit_char. destruct (d <? 10) eqn:E; lia. Qed.

Lemma digit_val_some r c d : digit_val r c = Some d ->
  d < r /\ ((48 <= c <= 57 /\ d = c - 48) \/ (97 <= c <= 122 /\ d = c - 87) \/ (65 <= c <= 90 /\ d = c - 55)).
Proof.
  unfold digit_val.
  destruct ((48 <=? c) && (c <=? 57)) eqn:E1.
  { destruct (c - 48 <? r) eqn:E; [|discriminate]. intros [= <-]. lia. }
  destruct ((97 <=? c) && (c <=? 122)) eqn:E2.
  { destruct (c - 87 <? r) eqn:E; [|discriminate]. intros [= <-]. lia. }
  destruct ((65 <=? c) && (c <=? 90)) eqn:E3; [|discriminate].
  destruct (c - 55 <? r) eqn:E; [|discriminate]. intros [= <-]. lia.
Qed.

Lemma digit_val_lower r c d : r <= 16 -> digit_val r c = Some d -> lower_hex c = digit_char d.
Proof.
  intros Hr H. apply digit_val_some in H. unfold lower_hex, digit_char.
  destruct ((65 <=? c) && (c <=? 70)) eqn:E1; destruct (d <? 10) eqn:E2; lia.
Qed.

Lemma digit_val_zero r c : digit_val r c = Some 0 -> c = 48.
Proof. intros H. apply digit_val_some in H. lia. Qed.

Lemma digit_val_48 r : 1 <= r -> digit_val r 48 = Some 0.
Proof.
  intros H. unfold digit_val. change ((48 <=? 48) && (48 <=? 57)) with true. cbv iota.
  change (48 - 48) with 0. replace (0 <? r) with true by lia. reflexivity.
Qed.

(** ** [parse_digits] computes the big-endian value *)
Definition dval (r c : N) : N := match digit_val r c with Some d => d | None => 0 end.
Definition dvalid (r c : N) : bool := match digit_val r c with Some _ => true | None => false end.

Lemma parse_digits_ok r max ds : 1 <= r -> r <= 36 ->
  Forall (fun d => d < r) ds -> forall acc, be_value r acc ds <= max ->
  parse_digits r max acc (map digit_char ds) = Some (be_value r acc ds).
Proof.
  intros Hr1 Hr2 Hf. induction Hf as [|d t Hd Ht IH]; intros acc Hv; [reflexivity|].
  cbn [map parse_digits]. rewrite digit_val_char by assumption.
  cbn [be_value fold_left] in *. fold (be_value r (acc * r + d) t) in *.
  pose proof (be_value_ge r (acc * r + d) t Hr1).
  replace (max <? acc * r + d) with false by lia. apply IH. exact Hv.
Qed.

Lemma parse_digits_some r max s : forall acc v,
  parse_digits r max acc s = Some v ->
  forallb (dvalid r) s = true /\ v = be_value r acc (map (dval r) s) /\ (s <> [] -> v <= max).
Proof.
  induction s as [|c t IH]; intros acc v H.
  - cbn in H. injection H as <-. refine (conj eq_refl (conj eq_refl _)). congruence.
  - cbn [parse_digits] in H. cbn [forallb map]. unfold dvalid at 1, dval at 1.
    destruct (digit_val r c) as [d|] eqn:Ed; [|discriminate].
    destruct (max <? acc * r + d) eqn:Em; [discriminate|].
    destruct (IH _ _ H) as (Ha & Hb & Hc). refine (conj Ha (conj Hb _)). intros _.
    destruct t as [|c' t']; [cbn in Hb; lia|]. apply Hc. discriminate.
Qed.

Lemma parse_digits_bad r max s c : In c s -> digit_val r c = None ->
  forall acc, parse_digits r max acc s = None.
Proof.
  intros Hin Hc. induction s as [|b t IH]; intros acc; [destruct Hin|].
  cbn [parse_digits]. destruct Hin as [->|Hin]; [rewrite Hc; reflexivity|].
  destruct (digit_val r b); [|reflexivity]. destruct (max <? _); [reflexivity|]. apply IH, Hin.
Qed.

(** ** [parse_uint] *)
Lemma parse_uint_nosign r max c t : c <> c_plus -> c <> c_dash ->
  parse_uint r max (c :: t) = parse_digits r max 0 (c :: t).
Proof.
  intros H1 H2. unfold parse_uint, c_plus, c_dash in *.
  destruct t; [replace ((c =? 43) || (c =? 45)) with false by lia|replace (c =? 43) with false by lia]; reflexivity.
Qed.

Lemma to_digits_nz r v : v <> 0 ->
  to_digits r v = map digit_char (rev (le_digits (S (N.to_nat (N.log2 v))) r v)).
Proof. intros H. unfold to_digits. replace (v =? 0) with false by lia. reflexivity. Qed.

Lemma to_digits_lhex r v : 2 <= r -> r <= 16 -> forallb lhexb (to_digits r v) = true.
Proof.
  intros H1 H2. unfold to_digits. destruct (v =? 0); [reflexivity|].
  apply forallb_forall. intros c Hc. apply in_map_iff in Hc. destruct Hc as (d & <- & Hd).
  apply in_rev in Hd. pose proof (le_digits_lt r (S (N.to_nat (N.log2 v))) v ltac:(lia)) as Hf.
  rewrite Forall_forall in Hf. apply digit_char_lhex. specialize (Hf d Hd). lia.
Qed.

Lemma to_digits_nonempty r v : 2 <= r -> to_digits r v <> [].
Proof.
  intros Hr. unfold to_digits. destruct (v =? 0) eqn:E; [discriminate|].
  intros H. apply map_eq_nil in H.
  assert (HL : le_digits (S (N.to_nat (N.log2 v))) r v = []).
  { apply (f_equal (@rev N)) in H. rewrite rev_involutive in H. exact H. }
  pose proof (le_digits_value r _ v Hr (log2_fuel v ltac:(lia))) as Hv. rewrite HL in Hv. cbn in Hv. lia.
Qed.

(** printing then std parsing is the identity *)
Lemma parse_uint_to_digits r max v : 2 <= r -> r <= 16 -> v <= max ->
  parse_uint r max (to_digits r v) = Some v.
Proof.
  intros H1 H2 Hv. destruct (N.eq_dec v 0) as [->|Hnz].
  - change (to_digits r 0) with [48]. rewrite parse_uint_nosign by (unfold c_plus, c_dash; lia).
    cbn [parse_digits]. rewrite digit_val_48 by lia. replace (max <? 0 * r + 0) with false by lia. reflexivity.
  - pose proof (to_digits_lhex r v H1 H2) as Hl. pose proof (to_digits_nonempty r v H1) as Hne.
    destruct (to_digits r v) as [|c t] eqn:E; [congruence|].
    cbn [forallb] in Hl. apply andb_true_iff in Hl. destruct Hl as [Hc _].
    rewrite parse_uint_nosign by (unfold lhexb, c_plus, c_dash in *; lia).
    rewrite <- E, to_digits_nz by exact Hnz.
    pose proof (le_digits_value r _ v H1 (log2_fuel v Hnz)) as Hval.
    rewrite <- be_value_rev in Hval.
    rewrite parse_digits_ok; [congruence|lia|lia| |lia].
    apply Forall_rev. apply le_digits_lt. lia.
Qed.

Lemma parse_uint_le r max s v : parse_uint r max s = Some v -> v <= max.
Proof.
  unfold parse_uint. destruct s as [|b t]; [discriminate|].
  destruct t as [|b' t'].
  - destruct ((b =? c_plus) || (b =? c_dash)); [discriminate|]. intros H.
    apply parse_digits_some in H. apply H. discriminate.
  - destruct (b =? c_plus); intros H; apply parse_digits_some in H; apply H; discriminate.
Qed.

(** ** exactness for numbers: an accepted spelling normalises to the printed form *)
Lemma strip_zeros_cons c c' u :
  strip_zeros (c :: c' :: u) = if c =? 48 then strip_zeros (c' :: u) else c :: c' :: u.
Proof. reflexivity. Qed.

Lemma strip_zeros_spec r t : 1 <= r -> t <> [] -> forallb (dvalid r) t = true ->
  strip_zeros t <> [] /\ forallb (dvalid r) (strip_zeros t) = true /\
  be_value r 0 (map (dval r) (strip_zeros t)) = be_value r 0 (map (dval r) t) /\
  (strip_zeros t = [48] \/ exists c u, strip_zeros t = c :: u /\ dval r c <> 0).
Proof.
  intros Hr. induction t as [|c t IH]; [congruence|]. intros _ Hv.
  destruct t as [|c' u].
  - change (strip_zeros [c]) with [c]. split; [discriminate|]. split; [exact Hv|]. split; [reflexivity|].
    cbn [forallb] in Hv. apply andb_true_iff in Hv. destruct Hv as [Hc _].
    unfold dvalid in Hc. destruct (digit_val r c) as [d|] eqn:Ed; [|discriminate].
    destruct (N.eq_dec d 0) as [->|Hd].
    + left. f_equal. eapply digit_val_zero; eauto.
    + right. exists c, []. split; [reflexivity|]. unfold dval. rewrite Ed. exact Hd.
  - rewrite strip_zeros_cons. destruct (c =? 48) eqn:E.
    + apply N.eqb_eq in E. subst c. cbn [forallb] in Hv. apply andb_true_iff in Hv. destruct Hv as [_ Hv].
      destruct (IH ltac:(discriminate) Hv) as (H1 & H2 & H3 & H4).
      assert (E0 : dval r 48 = 0) by (unfold dval; rewrite digit_val_48 by lia; reflexivity).
      split; [exact H1|]. split; [exact H2|]. split; [|exact H4]. rewrite H3.
      change (be_value r 0 (map (dval r) (48 :: c' :: u)))
        with (be_value r (0 * r + dval r 48) (map (dval r) (c' :: u))).
      rewrite E0. replace (0 * r + 0) with 0 by lia. reflexivity.
    + split; [discriminate|]. split; [exact Hv|]. split; [reflexivity|]. right. exists c, (c' :: u).
      split; [reflexivity|]. cbn [forallb] in Hv. apply andb_true_iff in Hv. destruct Hv as [Hc _].
      unfold dvalid in Hc. unfold dval. destruct (digit_val r c) as [d|] eqn:Ed; [|discriminate].
      intros ->. apply digit_val_zero in Ed. lia.
Qed.

Lemma parse_uint_strip_plus r max s v : parse_uint r max s = Some v ->
  strip_plus s <> [] /\ parse_digits r max 0 (strip_plus s) = Some v.
Proof.
  unfold parse_uint, strip_plus. destruct s as [|b t]; [discriminate|].
  destruct t as [|b' u].
  - destruct ((b =? c_plus) || (b =? c_dash)); [discriminate|]. intros H. split; [discriminate|exact H].
  - destruct (b =? c_plus); intros H; (split; [discriminate|exact H]).
Qed.

Lemma dvalid_lt r c : dvalid r c = true -> dval r c < r.
Proof.
  unfold dvalid, dval. destruct (digit_val r c) eqn:E; [|discriminate]. intros _.
  apply digit_val_some in E. lia.
Qed.

(** core: the normalised token consists of valid digits whose canonical characters are the
    printed form of the value *)
Lemma parse_uint_norm_core r max s v : 2 <= r -> r <= 36 -> parse_uint r max s = Some v ->
  let x := strip_zeros (strip_plus s) in
  forallb (dvalid r) x = true /\ map (fun c => digit_char (dval r c)) x = to_digits r v.
Proof.
  intros Hr1 Hr2 H. apply parse_uint_strip_plus in H. destruct H as (Hne & H).
  apply parse_digits_some in H. destruct H as (Hv & Hval & _).
  destruct (strip_zeros_spec r (strip_plus s) ltac:(lia) Hne Hv) as (Hx1 & Hx2 & Hx3 & Hx4).
  cbv zeta. split; [exact Hx2|]. rewrite <- Hx3 in Hval. clear Hx3.
  destruct Hx4 as [Hz|(c & u & Hcu & Hc)].
  - assert (E0 : dval r 48 = 0) by (unfold dval; rewrite digit_val_48 by lia; reflexivity).
    rewrite Hz in *. change (be_value r 0 (map (dval r) [48])) with (0 * r + dval r 48) in Hval.
    rewrite E0 in Hval. replace (0 * r + 0) with 0 in Hval by lia. subst v.
    cbn [map]. rewrite E0. reflexivity.
  - set (ds := map (dval r) (strip_zeros (strip_plus s))) in *.
    assert (Hf : Forall (fun d => d < r) ds).
    { apply Forall_forall. intros d Hd. apply in_map_iff in Hd. destruct Hd as (c0 & <- & Hc0).
      apply dvalid_lt. rewrite forallb_forall in Hx2. apply Hx2, Hc0. }
    assert (Hlast : last (rev ds) 1 <> 0).
    { unfold ds. rewrite Hcu. cbn [map rev]. rewrite last_last. exact Hc. }
    rewrite <- (rev_involutive ds), be_value_rev in Hval.
    assert (Hnz : v <> 0).
    { rewrite Hval. apply le_value_pos; [lia| |exact Hlast].
      unfold ds. rewrite Hcu. cbn [map rev]. intros E. apply app_eq_nil in E. destruct E; discriminate. }
    rewrite to_digits_nz by exact Hnz.
    pose proof (le_digits_unique r (rev ds) Hr1 (Forall_rev Hf) Hlast _
                  ltac:(rewrite <- Hval; apply log2_fuel; exact Hnz)) as Hu.
    rewrite <- Hval in Hu. rewrite Hu, rev_involutive. unfold ds. rewrite map_map. reflexivity.
Qed.

Lemma parse_uint_norm_hex max s v : parse_uint 16 max s = Some v -> norm_hex s = to_digits 16 v.
Proof.
  intros H. destruct (parse_uint_norm_core 16 max s v ltac:(lia) ltac:(lia) H) as (Hv & Hm).
  unfold norm_hex. rewrite <- Hm. apply map_ext_in. intros c Hc.
  rewrite forallb_forall in Hv. specialize (Hv c Hc). unfold dvalid, dval in *.
  destruct (digit_val 16 c) eqn:E; [|discriminate]. eapply digit_val_lower; [|exact E]. lia.
Qed.

Lemma parse_uint_norm_dec max s v : parse_uint 10 max s = Some v -> norm_dec s = to_digits 10 v.
Proof.
  intros H. destruct (parse_uint_norm_core 10 max s v ltac:(lia) ltac:(lia) H) as (Hv & Hm).
  unfold norm_dec. rewrite <- Hm. rewrite <- (map_id (strip_zeros (strip_plus s))) at 1.
  apply map_ext_in. intros c Hc.
  rewrite forallb_forall in Hv. specialize (Hv c Hc). unfold dvalid, dval in *.
  destruct (digit_val 10 c) as [d|] eqn:E; [|discriminate]. apply digit_val_some in E.
  unfold digit_char. destruct (d <? 10) eqn:E2; lia.
Qed.

(** the characters of an accepted number token *)
Definition numch (c : N) : bool :=
  (c =? c_plus) || ((48 <=? c) && (c <=? 57)) || ((97 <=? c) && (c <=? 122)) || ((65 <=? c) && (c <=? 90)).
Lemma parse_uint_chars r max s v : parse_uint r max s = Some v -> forallb numch s = true.
Proof.
  unfold parse_uint. destruct s as [|b t]; [discriminate|].
  assert (Hd : forall u acc w, parse_digits r max acc u = Some w -> forallb numch u = true).
  { intros u acc w H. apply parse_digits_some in H. destruct H as (H & _).
    apply forallb_forall. intros c Hc. rewrite forallb_forall in H. specialize (H c Hc).
    unfold dvalid in H. destruct (digit_val r c) eqn:E; [|discriminate]. apply digit_val_some in E.
    unfold numch, c_plus. lia. }
  destruct t as [|b' u].
  - destruct ((b =? c_plus) || (b =? c_dash)); [discriminate|]. apply Hd.
  - destruct (b =? c_plus) eqn:E; intros H.
    + cbn [forallb]. apply Hd in H. cbn [forallb] in H. rewrite H. unfold numch. rewrite E. reflexivity.
    + eapply Hd; eauto.
Qed.

(** * Part B: the splitting primitives *)
Lemma split_once_app c a b : ~ In c a -> split_once c (a ++ c :: b) = Some (a, b).
Proof.
  induction a as [|x a IH]; intros Hn; cbn [app split_once].
  - rewrite N.eqb_refl. reflexivity.
  - replace (x =? c) with false by (symmetry; apply N.eqb_neq; intros ->; apply Hn; left; reflexivity).
    rewrite IH; [reflexivity|]. intros H. apply Hn. right. exact H.
Qed.

Lemma split_once_some c s a b : split_once c s = Some (a, b) -> s = a ++ c :: b /\ ~ In c a.
Proof.
  revert a b. induction s as [|x s IH]; intros a b H; [discriminate|].
  cbn [split_once] in H. destruct (x =? c) eqn:E.
  - apply N.eqb_eq in E. injection H as <- <-. subst x. split; [reflexivity|intros []].
  - destruct (split_once c s) as [[a' t]|] eqn:Es; [|discriminate]. injection H as <- <-.
    destruct (IH _ _ eq_refl) as (-> & Hn). split; [reflexivity|].
    intros [->|H]; [rewrite N.eqb_refl in E; discriminate|exact (Hn H)].
Qed.

Lemma split_once_none c s : split_once c s = None <-> ~ In c s.
Proof.
  induction s as [|x s IH]; cbn [split_once].
  - split; [intros _ []|reflexivity].
  - destruct (x =? c) eqn:E.
    + apply N.eqb_eq in E. subst. split; [discriminate|]. intros H. exfalso. apply H. left. reflexivity.
    + apply N.eqb_neq in E. destruct (split_once c s) as [[a t]|].
      * split; [discriminate|]. intros H. exfalso. destruct IH as [_ IH].
        assert (Hn : ~ In c s) by (intros Hi; apply H; right; exact Hi). specialize (IH Hn). discriminate.
      * split; [|reflexivity]. intros _ [H|H]; [congruence|]. destruct IH as [IH _]. exact (IH eq_refl H).
Qed.

Lemma rsplit_once_app c a b : ~ In c b -> rsplit_once c (a ++ c :: b) = Some (a, b).
Proof.
  intros Hn. unfold rsplit_once. rewrite rev_app_distr. cbn [rev]. rewrite <- app_assoc. cbn [app].
  rewrite split_once_app by (rewrite <- in_rev; exact Hn). rewrite !rev_involutive. reflexivity.
Qed.

Lemma rsplit_once_some c s a b : rsplit_once c s = Some (a, b) -> s = a ++ c :: b /\ ~ In c b.
Proof.
  unfold rsplit_once. destruct (split_once c (rev s)) as [[x y]|] eqn:E; [|discriminate].
  intros [= <- <-]. apply split_once_some in E. destruct E as (E & Hn). split.
  - apply (f_equal (@rev N)) in E. rewrite rev_involutive, rev_app_distr in E. cbn [rev] in E.
    rewrite <- app_assoc in E. exact E.
  - rewrite <- in_rev. exact Hn.
Qed.

Lemma count_zero c s : count c s = 0 <-> ~ In c s.
Proof.
  induction s as [|x s IH]; cbn [count In]; [split; [intros _ []|reflexivity]|].
  destruct (x =? c) eqn:E.
  - apply N.eqb_eq in E. split; [lia|]. intros H. exfalso. apply H. left. exact E.
  - apply N.eqb_neq in E. rewrite N.add_0_l, IH. split; [intros H [H'|H']; [congruence|exact (H H')]|].
    intros H H'. apply H. right. exact H'.
Qed.

Lemma count_app c a b : count c (a ++ b) = count c a + count c b.
Proof. induction a as [|x a IH]; cbn [app count]; [lia|rewrite IH; lia]. Qed.

Lemma count_cons_eq c s : count c (c :: s) = 1 + count c s.
Proof. cbn [count]. rewrite N.eqb_refl. reflexivity. Qed.

(** Spec's own splitter *)
Lemma split_all_none c s : ~ In c s -> split_all c s = [s].
Proof.
  induction s as [|x s IH]; intros Hn; [reflexivity|]. cbn [split_all].
  replace (x =? c) with false by (symmetry; apply N.eqb_neq; intros ->; apply Hn; left; reflexivity).
  rewrite IH; [reflexivity|]. intros H. apply Hn. right. exact H.
Qed.

Lemma split_all_app c a b : ~ In c a -> split_all c (a ++ c :: b) = a :: split_all c b.
Proof.
  induction a as [|x a IH]; intros Hn; cbn [app split_all].
  - rewrite N.eqb_refl. reflexivity.
  - replace (x =? c) with false by (symmetry; apply N.eqb_neq; intros ->; apply Hn; left; reflexivity).
    rewrite IH; [reflexivity|]. intros H. apply Hn. right. exact H.
Qed.

(** a string all of whose characters satisfy [p] does not contain a character that does not *)
Lemma forallb_notin (p : N -> bool) c s : forallb p s = true -> p c = false -> ~ In c s.
Proof. intros H Hc Hi. rewrite forallb_forall in H. rewrite (H c Hi) in Hc. discriminate. Qed.

(** * Part C: identifiers *)

(** ** shifts and masks as arithmetic *)
Lemma mul_lor x y k : y < 2 ^ k -> N.lor (x * 2 ^ k) y = x * 2 ^ k + y.
Proof.
  intros H.
  assert (E : N.land (x * 2 ^ k) y = 0).
  { apply N.bits_inj_0. intros n. rewrite N.land_spec.
    destruct (N.ltb_spec n k) as [L|L].
    - rewrite N.mul_pow2_bits_low by exact L. reflexivity.
    - rewrite <- (N.mod_small y (2 ^ k)) by exact H. rewrite N.mod_pow2_bits_high by exact L.
      apply andb_false_r. }
  rewrite <- N.lxor_lor by exact E. symmetry. apply N.add_nocarry_lxor. exact E.
Qed.
Lemma shl_lor x y k : y < 2 ^ k -> N.lor (N.shiftl x k) y = x * 2 ^ k + y.
Proof. intros H. rewrite N.shiftl_mul_pow2. apply mul_lor, H. Qed.

Lemma asn_part_eq v i : asn_part v i = (v / 2 ^ (ASN_BITS_PER_PART * i)) mod 2 ^ 16.
Proof.
  unfold asn_part. rewrite N.shiftr_div_pow2. change U16_MAX with (N.ones 16). apply N.land_ones.
Qed.

Lemma asn_part_le v i : asn_part v i <= U16_MAX.
Proof.
  rewrite asn_part_eq. pose proof (N.mod_lt (v / 2 ^ (ASN_BITS_PER_PART * i)) (2 ^ 16) ltac:(discriminate)) as H.
  change (2 ^ 16) with 65536 in *. unfold U16_MAX. lia.
Qed.

Lemma asn_step_val x y : x < 2 ^ 32 -> y <= U16_MAX ->
  N.lor ((N.shiftl x ASN_BITS_PER_PART) mod 2 ^ 64) y = x * 65536 + y.
Proof.
  intros Hx Hy. unfold U16_MAX, ASN_BITS_PER_PART in *. rewrite N.shiftl_mul_pow2.
  change (2 ^ 16) with 65536. change (2 ^ 32) with 4294967296 in Hx.
  change (2 ^ 64) with 18446744073709551616.
  rewrite N.mod_small by lia. change 65536 with (2 ^ 16).
  apply mul_lor. change (2 ^ 16) with 65536. lia.
Qed.

Lemma asn_fold_step_ok a n p : p <= U16_MAX ->
  asn_fold_step (Some (a, n)) (to_digits 16 p) =
  Some (N.lor ((N.shiftl a ASN_BITS_PER_PART) mod 2 ^ 64) p, n + 1).
Proof. intros H. unfold asn_fold_step. rewrite parse_uint_to_digits by (lia || exact H). reflexivity. Qed.

Definition asnch (c : N) : bool := lhexb c || (c =? c_colon).

Lemma display_asn_hex_chars v : forallb asnch (display_asn_hex v) = true.
Proof.
  unfold display_asn_hex. rewrite !forallb_app. cbn [forallb].
  assert (H : forall p, forallb asnch (to_digits 16 p) = true).
  { intros p. pose proof (to_digits_lhex 16 p ltac:(lia) ltac:(lia)) as H.
    apply forallb_forall. intros c Hc. rewrite forallb_forall in H. unfold asnch. rewrite (H c Hc). reflexivity. }
  rewrite !H. reflexivity.
Qed.

Lemma display_asn_chars v : forallb asnch (display_asn v) = true.
Proof.
  unfold display_asn. destruct (v <=? U32_MAX); [|apply display_asn_hex_chars].
  pose proof (to_digits_lhex 10 v ltac:(lia) ltac:(lia)) as H.
  apply forallb_forall. intros c Hc. rewrite forallb_forall in H. unfold asnch. rewrite (H c Hc). reflexivity.
Qed.

Lemma lhex_no (c : N) s : forallb lhexb s = true -> lhexb c = false -> ~ In c s.
Proof. apply forallb_notin. Qed.

(** the colon-hex form parses back, for every AS number (also below 2^32) *)
Lemma parse_asn_hex v : v <= ASN_MAX -> parse_asn (display_asn_hex v) = Ok v.
Proof.
  intros Hv. unfold parse_asn, display_asn_hex.
  set (h2 := to_digits 16 (asn_part v 2)). set (h1 := to_digits 16 (asn_part v 1)).
  set (h0 := to_digits 16 (asn_part v 0)).
  assert (L2 : forallb lhexb h2 = true) by (apply to_digits_lhex; lia).
  assert (L1 : forallb lhexb h1 = true) by (apply to_digits_lhex; lia).
  assert (N2 : h2 <> []) by (apply to_digits_nonempty; lia).
  cbn [app].
  (* not a decimal number *)
  assert (E1 : parse_uint 10 U64_MAX (h2 ++ c_colon :: h1 ++ c_colon :: h0) = None).
  { destruct h2 as [|c t] eqn:E; [congruence|]. cbn [app].
    cbn [forallb] in L2. apply andb_true_iff in L2. destruct L2 as [Hc _].
    rewrite parse_uint_nosign by (unfold lhexb, c_plus, c_dash in *; lia).
    apply (parse_digits_bad 10 U64_MAX _ c_colon); [|reflexivity].
    right. apply in_or_app. right. left. reflexivity. }
  rewrite E1. change (N.to_nat ASN_NUMBER_PARTS) with 3%nat. cbn [splitn].
  rewrite split_once_app by (apply (lhex_no _ _ L2); reflexivity).
  rewrite split_once_app by (apply (lhex_no _ _ L1); reflexivity).
  cbn [fold_left]. unfold h2, h1, h0.
  rewrite !asn_fold_step_ok by apply asn_part_le.
  pose proof (asn_part_le v 2) as B2. pose proof (asn_part_le v 1) as B1. pose proof (asn_part_le v 0) as B0.
  rewrite (asn_step_val 0) by (change (2 ^ 32) with 4294967296; lia || exact B2).
  rewrite (asn_step_val (0 * 65536 + asn_part v 2)) by (change (2 ^ 32) with 4294967296; unfold U16_MAX in *; lia).
  rewrite (asn_step_val ((0 * 65536 + asn_part v 2) * 65536 + asn_part v 1)) by (change (2 ^ 32) with 4294967296; unfold U16_MAX in *; lia).
  change (0 + 1 + 1 + 1 =? ASN_NUMBER_PARTS) with true. cbv iota.
  assert (Ev : ((0 * 65536 + asn_part v 2) * 65536 + asn_part v 1) * 65536 + asn_part v 0 = v).
  { rewrite !asn_part_eq. unfold ASN_BITS_PER_PART, ASN_MAX in *.
    change (2 ^ (16 * 2)) with 4294967296. change (2 ^ (16 * 1)) with 65536.
    change (2 ^ (16 * 0)) with 1. change (2 ^ 16) with 65536. lia. }
  rewrite Ev. unfold asn_new_checked. replace (ASN_MAX <? v) with false by lia. reflexivity.
Qed.

Lemma parse_asn_display v : v <= ASN_MAX -> parse_asn (display_asn v) = Ok v.
Proof.
  intros Hv. unfold display_asn. destruct (v <=? U32_MAX) eqn:E; [|apply parse_asn_hex; exact Hv].
  unfold parse_asn. rewrite parse_uint_to_digits by (unfold U64_MAX, U32_MAX in *; lia).
  rewrite E. reflexivity.
Qed.

Lemma parse_isd_display v : v <= U16_MAX -> parse_isd (display_isd v) = Ok v.
Proof. intros H. unfold parse_isd, display_isd. rewrite parse_uint_to_digits by (lia || exact H). reflexivity. Qed.

(** ** IsdAsn *)
Lemma ia_isd_eq v : ia_isd v = (v / 2 ^ 48) mod 2 ^ 16.
Proof. unfold ia_isd, ASN_BITS. rewrite N.shiftr_div_pow2. reflexivity. Qed.
Lemma ia_asn_eq v : ia_asn v = v mod 2 ^ 48.
Proof. unfold ia_asn. change ASN_MAX with (N.ones 48). apply N.land_ones. Qed.
Lemma ia_new_eq i n : n < 2 ^ 48 -> ia_new i n = i * 2 ^ 48 + n.
Proof. intros H. unfold ia_new, ASN_BITS. apply shl_lor, H. Qed.

Lemma ia_isd_le v : ia_isd v <= U16_MAX.
Proof.
  rewrite ia_isd_eq. pose proof (N.mod_lt (v / 2 ^ 48) (2 ^ 16) ltac:(discriminate)).
  change (2 ^ 16) with 65536 in *. unfold U16_MAX. lia.
Qed.
Lemma ia_asn_le v : ia_asn v <= ASN_MAX.
Proof.
  rewrite ia_asn_eq. pose proof (N.mod_lt v (2 ^ 48) ltac:(discriminate)).
  change (2 ^ 48) with 281474976710656 in *. unfold ASN_MAX. lia.
Qed.

Lemma ia_join v : v < 2 ^ 64 -> ia_new (ia_isd v) (ia_asn v) = v.
Proof.
  intros H. pose proof (ia_asn_le v) as Ha. rewrite ia_new_eq by (unfold ASN_MAX in Ha; change (2 ^ 48) with 281474976710656; lia).
  rewrite ia_isd_eq, ia_asn_eq. change (2 ^ 48) with 281474976710656. change (2 ^ 16) with 65536.
  change (2 ^ 64) with 18446744073709551616 in H. lia.
Qed.

Lemma ia_split i n : i <= U16_MAX -> n <= ASN_MAX -> ia_isd (ia_new i n) = i /\ ia_asn (ia_new i n) = n.
Proof.
  unfold U16_MAX, ASN_MAX. intros Hi Hn.
  rewrite ia_new_eq by (change (2 ^ 48) with 281474976710656; lia).
  rewrite ia_isd_eq, ia_asn_eq. change (2 ^ 48) with 281474976710656. change (2 ^ 16) with 65536. lia.
Qed.

Lemma display_isd_lhex v : forallb lhexb (display_isd v) = true.
Proof. apply to_digits_lhex; lia. Qed.

Lemma count_none (p : N -> bool) c s : forallb p s = true -> p c = false -> count c s = 0.
Proof. intros H Hc. apply count_zero. eapply forallb_notin; eauto. Qed.

Lemma parse_ia_display v : v < 2 ^ 64 -> parse_ia (display_ia v) = Ok v.
Proof.
  intros Hv. unfold parse_ia, display_ia. cbn [app].
  rewrite count_app, count_cons_eq.
  rewrite (count_none lhexb) by (apply display_isd_lhex || reflexivity).
  rewrite (count_none asnch) by (apply display_asn_chars || reflexivity).
  change (negb (N.min 2 (0 + (1 + 0)) =? 1)) with false. cbv iota.
  rewrite split_once_app by (apply (lhex_no _ _ (display_isd_lhex _)); reflexivity).
  rewrite parse_isd_display by apply ia_isd_le. rewrite parse_asn_display by apply ia_asn_le.
  rewrite ia_join by exact Hv. reflexivity.
Qed.

(** ** no panics in the identifier parsers *)
Lemma parse_isd_nopanic s : is_panic (parse_isd s) = false.
Proof. unfold parse_isd. destruct (parse_uint 10 U16_MAX s); reflexivity. Qed.

Lemma parse_asn_nopanic s : is_panic (parse_asn s) = false.
Proof.
  unfold parse_asn. destruct (parse_uint 10 U64_MAX s) as [v|].
  - destruct (v <=? U32_MAX); reflexivity.
  - destruct (fold_left _ _ _) as [[val n]|]; [|reflexivity].
    destruct (n =? ASN_NUMBER_PARTS); [|reflexivity]. destruct (asn_new_checked val); reflexivity.
Qed.

Lemma parse_ia_nopanic s : is_panic (parse_ia s) = false.
Proof.
  unfold parse_ia. destruct (negb (N.min 2 (count c_dash s) =? 1)) eqn:E; [reflexivity|].
  destruct (split_once c_dash s) as [[a b]|] eqn:Es.
  - pose proof (parse_isd_nopanic a) as Hi. pose proof (parse_asn_nopanic b) as Ha.
    destruct (parse_isd a), (parse_asn b); try discriminate; reflexivity.
  - exfalso. apply split_once_none in Es. apply count_zero in Es. rewrite Es in E. discriminate.
Qed.
