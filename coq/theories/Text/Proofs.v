(** Lemmas for C15.  Part A: positional number systems (printing / std parsing round trip and
    uniqueness of the canonical digit string).  Part B: the splitting primitives.  Part C: the
    identifier types.  Part D: the address types. *)
From Coq Require Import Lia ZifyBool ZifyNat ZifyN.
From Sci Require Import Text.Model Text.Spec.
Ltac Zify.zify_post_hook ::= Z.div_mod_to_equations.
Local Open Scope N_scope.
Arguments N.add : simpl never. Arguments N.sub : simpl never. Arguments N.mul : simpl never.
Arguments N.div : simpl never. Arguments N.modulo : simpl never. Arguments N.pow : simpl never.
Arguments N.eqb : simpl never. Arguments N.ltb : simpl never. Arguments N.leb : simpl never.
Arguments N.shiftl : simpl never. Arguments N.shiftr : simpl never.
Arguments N.land : simpl never. Arguments N.lor : simpl never.

(** * Part A: digits *)

Definition be_value (r acc : N) (ds : list N) : N := fold_left (fun a d => a * r + d) ds acc.
Fixpoint le_value (r : N) (ds : list N) : N :=
  match ds with [] => 0 | d :: t => d + r * le_value r t end.

Lemma be_value_app r acc a b : be_value r acc (a ++ b) = be_value r (be_value r acc a) b.
Proof. unfold be_value. apply fold_left_app. Qed.

Lemma be_value_rev r ds : be_value r 0 (rev ds) = le_value r ds.
Proof.
  induction ds as [|d t IH]; [reflexivity|].
  cbn [rev le_value]. rewrite be_value_app, IH. cbn. lia.
Qed.

Lemma be_value_ge r acc ds : 1 <= r -> acc <= be_value r acc ds.
Proof.
  intros Hr. revert acc. induction ds as [|d t IH]; intros acc; [cbn; lia|].
  cbn [be_value fold_left]. specialize (IH (acc * r + d)). unfold be_value in IH. nia.
Qed.

Lemma le_digits_value r fuel v :
  2 <= r -> v < 2 ^ N.of_nat fuel -> le_value r (le_digits fuel r v) = v.
Proof.
  intros Hr. revert v. induction fuel as [|f IH]; intros v Hv.
  - change (2 ^ N.of_nat 0) with 1 in Hv. cbn. lia.
  - cbn [le_digits]. destruct (v =? 0) eqn:E; [cbn; lia|].
    cbn [le_value]. rewrite IH.
    + pose proof (N.div_mod' v r). lia.
    + rewrite Nat2N.inj_succ, N.pow_succ_r' in Hv.
      apply N.div_lt_upper_bound; [lia|]. nia.
Qed.

Lemma le_digits_lt r fuel v : 1 <= r -> Forall (fun d => d < r) (le_digits fuel r v).
Proof.
  intros Hr. revert v. induction fuel as [|f IH]; intros v; cbn [le_digits]; [constructor|].
  destruct (v =? 0); [constructor|]. constructor; [apply N.mod_lt; lia|apply IH].
Qed.

Lemma log2_fuel v : v <> 0 -> v < 2 ^ N.of_nat (S (N.to_nat (N.log2 v))).
Proof.
  intros Hv. rewrite Nat2N.inj_succ, N2Nat.id. apply N.log2_spec. lia.
Qed.

(** uniqueness: a little-endian digit list without a trailing zero is the one [le_digits] computes *)
Lemma le_value_pos r l : 1 <= r -> l <> [] -> last l 1 <> 0 -> le_value r l <> 0.
Proof.
  intros Hr. induction l as [|d t IH]; [congruence|]. intros _ Hl.
  destruct t as [|e t']; [cbn in *; lia|].
  cbn [le_value]. change (last (d :: e :: t') 1) with (last (e :: t') 1) in Hl.
  specialize (IH ltac:(discriminate) Hl). cbn [le_value] in IH. nia.
Qed.

Lemma le_digits_unique r l : 2 <= r ->
  Forall (fun d => d < r) l -> last l 1 <> 0 ->
  forall fuel, le_value r l < 2 ^ N.of_nat fuel -> le_digits fuel r (le_value r l) = l.
Proof.
  intros Hr. induction l as [|d t IH]; intros Hf Hl fuel Hv.
  - destruct fuel; reflexivity.
  - assert (Hnz : le_value r (d :: t) <> 0) by (apply le_value_pos; [lia|discriminate|exact Hl]).
    destruct fuel as [|f]; [change (2 ^ N.of_nat 0) with 1 in Hv; lia|].
    cbn [le_digits]. destruct (le_value r (d :: t) =? 0) eqn:E; [lia|].
    inversion Hf as [|? ? Hd Ht]; subst.
    assert (Hl' : last t 1 <> 0) by (destruct t; [cbn; lia|exact Hl]).
    cbn [le_value] in *.
    assert (Hm : (d + r * le_value r t) mod r = d).
    { replace (d + r * le_value r t) with (d + le_value r t * r) by lia.
      rewrite N.mod_add by lia. apply N.mod_small; exact Hd. }
    assert (Hq : (d + r * le_value r t) / r = le_value r t).
    { replace (d + r * le_value r t) with (d + le_value r t * r) by lia.
      rewrite N.div_add by lia. rewrite N.div_small by exact Hd. lia. }
    rewrite Hm, Hq. f_equal. apply IH; auto.
    rewrite Nat2N.inj_succ, N.pow_succ_r' in Hv. nia.
Qed.

(** ** characters *)
Definition lhexb (c : N) : bool := ((48 <=? c) && (c <=? 57)) || ((97 <=? c) && (c <=? 102)).

Lemma digit_val_char r d : d < r -> r <= 36 -> digit_val r (digit_char d) = Some d.
Proof.
  intros Hd Hr. unfold digit_val, digit_char.
  destruct (d <? 10) eqn:E.
  - replace ((48 <=? 48 + d) && (48 + d <=? 57)) with true by lia.
    replace (48 + d - 48) with d by lia. replace (d <? r) with true by lia. reflexivity.
  - replace ((48 <=? 87 + d) && (87 + d <=? 57)) with false by lia.
    replace ((97 <=? 87 + d) && (87 + d <=? 122)) with true by lia.
    replace (87 + d - 87) with d by lia. replace (d <? r) with true by lia. reflexivity.
Qed.

Lemma digit_char_lhex d : d < 16 -> lhexb (digit_char d) = true.
Proof. intros H. unfold lhexb, digit_char. destruct (d <? 10) eqn:E; lia. Qed.

Lemma digit_val_some r c d : digit_val r c = Some d ->
  d < r /\ ((48 <= c <= 57 /\ d = c - 48) \/ (97 <= c <= 122 /\ d = c - 87) \/ (65 <= c <= 90 /\ d = c - 55)).
Proof.
  unfold digit_val.
  destruct ((48 <=? c) && (c <=? 57)) eqn:E1.
  { destruct (c - 48 <? r) eqn:E; [|discriminate]. intros [= <-]. lia. }
  destruct ((97 <=? c) && (c <=? 122)) eqn:E2.
  { destruct (c - 87 <? r) eqn:E; [|discriminate]. intros [= <-]. lia. }
  destruct ((65 <=? c) && (c <=? 90)) eqn:E3; [|discriminate].
  destruct (c - 55 <? r) eqn:E; [|discriminate]. intros [= <-]. lia.
Qed.

Lemma digit_val_lower r c d : r <= 16 -> digit_val r c = Some d -> lower_hex c = digit_char d.
Proof.
  intros Hr H. apply digit_val_some in H. unfold lower_hex, digit_char.
  destruct ((65 <=? c) && (c <=? 70)) eqn:E1; destruct (d <? 10) eqn:E2; lia.
Qed.

Lemma digit_val_zero r c : digit_val r c = Some 0 -> c = 48.
Proof. intros H. apply digit_val_some in H. lia. Qed.

Lemma digit_val_48 r : 1 <= r -> digit_val r 48 = Some 0.
Proof.
  intros H. unfold digit_val. change ((48 <=? 48) && (48 <=? 57)) with true. cbv iota.
  change (48 - 48) with 0. replace (0 <? r) with true by lia. reflexivity.
Qed.

(** ** [parse_digits] computes the big-endian value *)
Definition dval (r c : N) : N := match digit_val r c with Some d => d | None => 0 end.
Definition dvalid (r c : N) : bool := match digit_val r c with Some _ => true | None => false end.

Lemma parse_digits_ok r max ds : 1 <= r -> r <= 36 ->
  Forall (fun d => d < r) ds -> forall acc, be_value r acc ds <= max ->
  parse_digits r max acc (map digit_char ds) = Some (be_value r acc ds).
Proof.
  intros Hr1 Hr2 Hf. induction Hf as [|d t Hd Ht IH]; intros acc Hv; [reflexivity|].
  cbn [map parse_digits]. rewrite digit_val_char by assumption.
  cbn [be_value fold_left] in *. fold (be_value r (acc * r + d) t) in *.
  pose proof (be_value_ge r (acc * r + d) t Hr1).
  replace (max <? acc * r + d) with false by lia. apply IH. exact Hv.
Qed.

Lemma parse_digits_some r max s : forall acc v,
  parse_digits r max acc s = Some v ->
  forallb (dvalid r) s = true /\ v = be_value r acc (map (dval r) s) /\ (s <> [] -> v <= max).
Proof.
  induction s as [|c t IH]; intros acc v H.
  - cbn in H. injection H as <-. refine (conj eq_refl (conj eq_refl _)). congruence.
  - cbn [parse_digits] in H. cbn [forallb map]. unfold dvalid at 1, dval at 1.
    destruct (digit_val r c) as [d|] eqn:Ed; [|discriminate].
    destruct (max <? acc * r + d) eqn:Em; [discriminate|].
    destruct (IH _ _ H) as (Ha & Hb & Hc). refine (conj Ha (conj Hb _)). intros _.
    destruct t as [|c' t']; [cbn in Hb; lia|]. apply Hc. discriminate.
Qed.

Lemma parse_digits_bad r max s c : In c s -> digit_val r c = None ->
  forall acc, parse_digits r max acc s = None.
Proof.
  intros Hin Hc. induction s as [|b t IH]; intros acc; [destruct Hin|].
  cbn [parse_digits]. destruct Hin as [->|Hin]; [rewrite Hc; reflexivity|].
  destruct (digit_val r b); [|reflexivity]. destruct (max <? _); [reflexivity|]. apply IH, Hin.
Qed.

(** ** [parse_uint] *)
Lemma parse_uint_nosign r max c t : c <> c_plus -> c <> c_dash ->
  parse_uint r max (c :: t) = parse_digits r max 0 (c :: t).
Proof.
  intros H1 H2. unfold parse_uint, c_plus, c_dash in *.
  destruct t; [replace ((c =? 43) || (c =? 45)) with false by lia|replace (c =? 43) with false by lia]; reflexivity.
Qed.

Lemma to_digits_nz r v : v <> 0 ->
  to_digits r v = map digit_char (rev (le_digits (S (N.to_nat (N.log2 v))) r v)).
Proof. intros H. unfold to_digits. replace (v =? 0) with false by lia. reflexivity. Qed.

Lemma to_digits_lhex r v : 2 <= r -> r <= 16 -> forallb lhexb (to_digits r v) = true.
Proof.
  intros H1 H2. unfold to_digits. destruct (v =? 0); [reflexivity|].
  apply forallb_forall. intros c Hc. apply in_map_iff in Hc. destruct Hc as (d & <- & Hd).
  apply in_rev in Hd. pose proof (le_digits_lt r (S (N.to_nat (N.log2 v))) v ltac:(lia)) as Hf.
  rewrite Forall_forall in Hf. apply digit_char_lhex. specialize (Hf d Hd). lia.
Qed.

Lemma to_digits_nonempty r v : 2 <= r -> to_digits r v <> [].
Proof.
  intros Hr. unfold to_digits. destruct (v =? 0) eqn:E; [discriminate|].
  intros H. apply map_eq_nil in H.
  assert (HL : le_digits (S (N.to_nat (N.log2 v))) r v = []).
  { apply (f_equal (@rev N)) in H. rewrite rev_involutive in H. exact H. }
  pose proof (le_digits_value r _ v Hr (log2_fuel v ltac:(lia))) as Hv. rewrite HL in Hv. cbn in Hv. lia.
Qed.

(** printing then std parsing is the identity *)
Lemma parse_uint_to_digits r max v : 2 <= r -> r <= 16 -> v <= max ->
  parse_uint r max (to_digits r v) = Some v.
Proof.
  intros H1 H2 Hv. destruct (N.eq_dec v 0) as [->|Hnz].
  - change (to_digits r 0) with [48]. rewrite parse_uint_nosign by (unfold c_plus, c_dash; lia).
    cbn [parse_digits]. rewrite digit_val_48 by lia. replace (max <? 0 * r + 0) with false by lia. reflexivity.
  - pose proof (to_digits_lhex r v H1 H2) as Hl. pose proof (to_digits_nonempty r v H1) as Hne.
    destruct (to_digits r v) as [|c t] eqn:E; [congruence|].
    cbn [forallb] in Hl. apply andb_true_iff in Hl. destruct Hl as [Hc _].
    rewrite parse_uint_nosign by (unfold lhexb, c_plus, c_dash in *; lia).
    rewrite <- E, to_digits_nz by exact Hnz.
    pose proof (le_digits_value r _ v H1 (log2_fuel v Hnz)) as Hval.
    rewrite <- be_value_rev in Hval.
    rewrite parse_digits_ok; [congruence|lia|lia| |lia].
    apply Forall_rev. apply le_digits_lt. lia.
Qed.

Lemma parse_uint_le r max s v : parse_uint r max s = Some v -> v <= max.
Proof.
  unfold parse_uint. destruct s as [|b t]; [discriminate|].
  destruct t as [|b' t'].
  - destruct ((b =? c_plus) || (b =? c_dash)); [discriminate|]. intros H.
    apply parse_digits_some in H. apply H. discriminate.
  - destruct (b =? c_plus); intros H; apply parse_digits_some in H; apply H; discriminate.
Qed.

(** ** exactness for numbers: an accepted spelling normalises to the printed form *)
Lemma strip_zeros_cons c c' u :
  strip_zeros (c :: c' :: u) = if c =? 48 then strip_zeros (c' :: u) else c :: c' :: u.
Proof. reflexivity. Qed.

Lemma strip_zeros_spec r t : 1 <= r -> t <> [] -> forallb (dvalid r) t = true ->
  strip_zeros t <> [] /\ forallb (dvalid r) (strip_zeros t) = true /\
  be_value r 0 (map (dval r) (strip_zeros t)) = be_value r 0 (map (dval r) t) /\
  (strip_zeros t = [48] \/ exists c u, strip_zeros t = c :: u /\ dval r c <> 0).
Proof.
  intros Hr. induction t as [|c t IH]; [congruence|]. intros _ Hv.
  destruct t as [|c' u].
  - change (strip_zeros [c]) with [c]. split; [discriminate|]. split; [exact Hv|]. split; [reflexivity|].
    cbn [forallb] in Hv. apply andb_true_iff in Hv. destruct Hv as [Hc _].
    unfold dvalid in Hc. destruct (digit_val r c) as [d|] eqn:Ed; [|discriminate].
    destruct (N.eq_dec d 0) as [->|Hd].
    + left. f_equal. eapply digit_val_zero; eauto.
    + right. exists c, []. split; [reflexivity|]. unfold dval. rewrite Ed. exact Hd.
  - rewrite strip_zeros_cons. destruct (c =? 48) eqn:E.
    + apply N.eqb_eq in E. subst c. cbn [forallb] in Hv. apply andb_true_iff in Hv. destruct Hv as [_ Hv].
      destruct (IH ltac:(discriminate) Hv) as (H1 & H2 & H3 & H4).
      assert (E0 : dval r 48 = 0) by (unfold dval; rewrite digit_val_48 by lia; reflexivity).
      split; [exact H1|]. split; [exact H2|]. split; [|exact H4]. rewrite H3.
      change (be_value r 0 (map (dval r) (48 :: c' :: u)))
        with (be_value r (0 * r + dval r 48) (map (dval r) (c' :: u))).
      rewrite E0. replace (0 * r + 0) with 0 by lia. reflexivity.
    + split; [discriminate|]. split; [exact Hv|]. split; [reflexivity|]. right. exists c, (c' :: u).
      split; [reflexivity|]. cbn [forallb] in Hv. apply andb_true_iff in Hv. destruct Hv as [Hc _].
      unfold dvalid in Hc. unfold dval. destruct (digit_val r c) as [d|] eqn:Ed; [|discriminate].
      intros ->. apply digit_val_zero in Ed. lia.
Qed.

Lemma parse_uint_strip_plus r max s v : parse_uint r max s = Some v ->
  strip_plus s <> [] /\ parse_digits r max 0 (strip_plus s) = Some v.
Proof.
  unfold parse_uint, strip_plus. destruct s as [|b t]; [discriminate|].
  destruct t as [|b' u].
  - destruct ((b =? c_plus) || (b =? c_dash)); [discriminate|]. intros H. split; [discriminate|exact H].
  - destruct (b =? c_plus); intros H; (split; [discriminate|exact H]).
Qed.

Lemma dvalid_lt r c : dvalid r c = true -> dval r c < r.
Proof.
  unfold dvalid, dval. destruct (digit_val r c) eqn:E; [|discriminate]. intros _.
  apply digit_val_some in E. lia.
Qed.

(** core: the normalised token consists of valid digits whose canonical characters are the
    printed form of the value *)
Lemma parse_uint_norm_core r max s v : 2 <= r -> r <= 36 -> parse_uint r max s = Some v ->
  let x := strip_zeros (strip_plus s) in
  forallb (dvalid r) x = true /\ map (fun c => digit_char (dval r c)) x = to_digits r v.
Proof.
  intros Hr1 Hr2 H. apply parse_uint_strip_plus in H. destruct H as (Hne & H).
  apply parse_digits_some in H. destruct H as (Hv & Hval & _).
  destruct (strip_zeros_spec r (strip_plus s) ltac:(lia) Hne Hv) as (Hx1 & Hx2 & Hx3 & Hx4).
  cbv zeta. split; [exact Hx2|]. rewrite <- Hx3 in Hval. clear Hx3.
  destruct Hx4 as [Hz|(c & u & Hcu & Hc)].
  - assert (E0 : dval r 48 = 0) by (unfold dval; rewrite digit_val_48 by lia; reflexivity).
    rewrite Hz in *. change (be_value r 0 (map (dval r) [48])) with (0 * r + dval r 48) in Hval.
    rewrite E0 in Hval. replace (0 * r + 0) with 0 in Hval by lia. subst v.
    cbn [map]. rewrite E0. reflexivity.
  - set (ds := map (dval r) (strip_zeros (strip_plus s))) in *.
    assert (Hf : Forall (fun d => d < r) ds).
    { apply Forall_forall. intros d Hd. apply in_map_iff in Hd. destruct Hd as (c0 & <- & Hc0).
      apply dvalid_lt. rewrite forallb_forall in Hx2. apply Hx2, Hc0. }
    assert (Hlast : last (rev ds) 1 <> 0).
    { unfold ds. rewrite Hcu. cbn [map rev]. rewrite last_last. exact Hc. }
    rewrite <- (rev_involutive ds), be_value_rev in Hval.
    assert (Hnz : v <> 0).
    { rewrite Hval. apply le_value_pos; [lia| |exact Hlast].
      unfold ds. rewrite Hcu. cbn [map rev]. intros E. apply app_eq_nil in E. destruct E; discriminate. }
    rewrite to_digits_nz by exact Hnz.
    pose proof (le_digits_unique r (rev ds) Hr1 (Forall_rev Hf) Hlast _
                  ltac:(rewrite <- Hval; apply log2_fuel; exact Hnz)) as Hu.
    rewrite <- Hval in Hu. rewrite Hu, rev_involutive. unfold ds. rewrite map_map. reflexivity.
Qed.

Lemma parse_uint_norm_hex max s v : parse_uint 16 max s = Some v -> norm_hex s = to_digits 16 v.
Proof.
  intros H. destruct (parse_uint_norm_core 16 max s v ltac:(lia) ltac:(lia) H) as (Hv & Hm).
  unfold norm_hex. rewrite <- Hm. apply map_ext_in. intros c Hc.
  rewrite forallb_forall in Hv. specialize (Hv c Hc). unfold dvalid, dval in *.
  destruct (digit_val 16 c) eqn:E; [|discriminate]. eapply digit_val_lower; [|exact E]. lia.
Qed.

Lemma parse_uint_norm_dec max s v : parse_uint 10 max s = Some v -> norm_dec s = to_digits 10 v.
Proof.
  intros H. destruct (parse_uint_norm_core 10 max s v ltac:(lia) ltac:(lia) H) as (Hv & Hm).
  unfold norm_dec. rewrite <- Hm. rewrite <- (map_id (strip_zeros (strip_plus s))) at 1.
  apply map_ext_in. intros c Hc.
  rewrite forallb_forall in Hv. specialize (Hv c Hc). unfold dvalid, dval in *.
  destruct (digit_val 10 c) as [d|] eqn:E; [|discriminate]. apply digit_val_some in E.
  unfold digit_char. destruct (d <? 10) eqn:E2; lia.
Qed.

(** the characters of an accepted number token *)
Definition numch (c : N) : bool :=
  (c =? c_plus) || ((48 <=? c) && (c <=? 57)) || ((97 <=? c) && (c <=? 122)) || ((65 <=? c) && (c <=? 90)).
Lemma parse_uint_chars r max s v : parse_uint r max s = Some v -> forallb numch s = true.
Proof.
  unfold parse_uint. destruct s as [|b t]; [discriminate|].
  assert (Hd : forall u acc w, parse_digits r max acc u = Some w -> forallb numch u = true).
  { intros u acc w H. apply parse_digits_some in H. destruct H as (H & _).
    apply forallb_forall. intros c Hc. rewrite forallb_forall in H. specialize (H c Hc).
    unfold dvalid in H. destruct (digit_val r c) eqn:E; [|discriminate]. apply digit_val_some in E.
    unfold numch, c_plus. lia. }
  destruct t as [|b' u].
  - destruct ((b =? c_plus) || (b =? c_dash)); [discriminate|]. apply Hd.
  - destruct (b =? c_plus) eqn:E; intros H.
    + cbn [forallb]. apply Hd in H. cbn [forallb] in H. rewrite H. unfold numch. rewrite E. reflexivity.
    + eapply Hd; eauto.
Qed.

(** * Part B: the splitting primitives *)
Lemma split_once_app c a b : ~ In c a -> split_once c (a ++ c :: b) = Some (a, b).
Proof.
  induction a as [|x a IH]; intros Hn; cbn [app split_once].
  - rewrite N.eqb_refl. reflexivity.
  - replace (x =? c) with false by (symmetry; apply N.eqb_neq; intros ->; apply Hn; left; reflexivity).
    rewrite IH; [reflexivity|]. intros H. apply Hn. right. exact H.
Qed.

Lemma split_once_some c s a b : split_once c s = Some (a, b) -> s = a ++ c :: b /\ ~ In c a.
Proof.
  revert a b. induction s as [|x s IH]; intros a b H; [discriminate|].
  cbn [split_once] in H. destruct (x =? c) eqn:E.
  - apply N.eqb_eq in E. injection H as <- <-. subst x. split; [reflexivity|intros []].
  - destruct (split_once c s) as [[a' t]|] eqn:Es; [|discriminate]. injection H as <- <-.
    destruct (IH _ _ eq_refl) as (-> & Hn). split; [reflexivity|].
    intros [->|H]; [rewrite N.eqb_refl in E; discriminate|exact (Hn H)].
Qed.

Lemma split_once_none c s : split_once c s = None <-> ~ In c s.
Proof.
  induction s as [|x s IH]; cbn [split_once].
  - split; [intros _ []|reflexivity].
  - destruct (x =? c) eqn:E.
    + apply N.eqb_eq in E. subst. split; [discriminate|]. intros H. exfalso. apply H. left. reflexivity.
    + apply N.eqb_neq in E. destruct (split_once c s) as [[a t]|].
      * split; [discriminate|]. intros H. exfalso. destruct IH as [_ IH].
        assert (Hn : ~ In c s) by (intros Hi; apply H; right; exact Hi). specialize (IH Hn). discriminate.
      * split; [|reflexivity]. intros _ [H|H]; [congruence|]. destruct IH as [IH _]. exact (IH eq_refl H).
Qed.

Lemma rsplit_once_app c a b : ~ In c b -> rsplit_once c (a ++ c :: b) = Some (a, b).
Proof.
  intros Hn. unfold rsplit_once. rewrite rev_app_distr. cbn [rev]. rewrite <- app_assoc. cbn [app].
  rewrite split_once_app by (rewrite <- in_rev; exact Hn). rewrite !rev_involutive. reflexivity.
Qed.

Lemma rsplit_once_some c s a b : rsplit_once c s = Some (a, b) -> s = a ++ c :: b /\ ~ In c b.
Proof.
  unfold rsplit_once. destruct (split_once c (rev s)) as [[x y]|] eqn:E; [|discriminate].
  intros [= <- <-]. apply split_once_some in E. destruct E as (E & Hn). split.
  - apply (f_equal (@rev N)) in E. rewrite rev_involutive, rev_app_distr in E. cbn [rev] in E.
    rewrite <- app_assoc in E. exact E.
  - rewrite <- in_rev. exact Hn.
Qed.

Lemma count_zero c s : count c s = 0 <-> ~ In c s.
Proof.
  induction s as [|x s IH]; cbn [count In]; [split; [intros _ []|reflexivity]|].
  destruct (x =? c) eqn:E.
  - apply N.eqb_eq in E. split; [lia|]. intros H. exfalso. apply H. left. exact E.
  - apply N.eqb_neq in E. rewrite N.add_0_l, IH. split; [intros H [H'|H']; [congruence|exact (H H')]|].
    intros H H'. apply H. right. exact H'.
Qed.

Lemma count_app c a b : count c (a ++ b) = count c a + count c b.
Proof. induction a as [|x a IH]; cbn [app count]; [lia|rewrite IH; lia]. Qed.

Lemma count_cons_eq c s : count c (c :: s) = 1 + count c s.
Proof. cbn [count]. rewrite N.eqb_refl. reflexivity. Qed.

(** Spec's own splitter *)
Lemma split_all_none c s : ~ In c s -> split_all c s = [s].
Proof.
  induction s as [|x s IH]; intros Hn; [reflexivity|]. cbn [split_all].
  replace (x =? c) with false by (symmetry; apply N.eqb_neq; intros ->; apply Hn; left; reflexivity).
  rewrite IH; [reflexivity|]. intros H. apply Hn. right. exact H.
Qed.

Lemma split_all_app c a b : ~ In c a -> split_all c (a ++ c :: b) = a :: split_all c b.
Proof.
  induction a as [|x a IH]; intros Hn; cbn [app split_all].
  - rewrite N.eqb_refl. reflexivity.
  - replace (x =? c) with false by (symmetry; apply N.eqb_neq; intros ->; apply Hn; left; reflexivity).
    rewrite IH; [reflexivity|]. intros H. apply Hn. right. exact H.
Qed.

(** a string all of whose characters satisfy [p] does not contain a character that does not *)
Lemma forallb_notin (p : N -> bool) c s : forallb p s = true -> p c = false -> ~ In c s.
Proof. intros H Hc Hi. rewrite forallb_forall in H. rewrite (H c Hi) in Hc. discriminate. Qed.

(** * Part C: identifiers *)

(** ** shifts and masks as arithmetic *)
Lemma mul_lor x y k : y < 2 ^ k -> N.lor (x * 2 ^ k) y = x * 2 ^ k + y.
Proof.
  intros H.
  assert (E : N.land (x * 2 ^ k) y = 0).
  { apply N.bits_inj_0. intros n. rewrite N.land_spec.
    destruct (N.ltb_spec n k) as [L|L].
    - rewrite N.mul_pow2_bits_low by exact L. reflexivity.
    - rewrite <- (N.mod_small y (2 ^ k)) by exact H. rewrite N.mod_pow2_bits_high by exact L.
      apply andb_false_r. }
  rewrite <- N.lxor_lor by exact E. symmetry. apply N.add_nocarry_lxor. exact E.
Qed.
Lemma shl_lor x y k : y < 2 ^ k -> N.lor (N.shiftl x k) y = x * 2 ^ k + y.
Proof. intros H. rewrite N.shiftl_mul_pow2. apply mul_lor, H. Qed.

Lemma asn_part_eq v i : asn_part v i = (v / 2 ^ (ASN_BITS_PER_PART * i)) mod 2 ^ 16.
Proof.
  unfold asn_part. rewrite N.shiftr_div_pow2. change U16_MAX with (N.ones 16). apply N.land_ones.
Qed.

Lemma asn_part_le v i : asn_part v i <= U16_MAX.
Proof.
  rewrite asn_part_eq. pose proof (N.mod_lt (v / 2 ^ (ASN_BITS_PER_PART * i)) (2 ^ 16) ltac:(discriminate)) as H.
  change (2 ^ 16) with 65536 in *. unfold U16_MAX. lia.
Qed.

Lemma asn_step_val x y : x < 2 ^ 32 -> y <= U16_MAX ->
  N.lor ((N.shiftl x ASN_BITS_PER_PART) mod 2 ^ 64) y = x * 65536 + y.
Proof.
  intros Hx Hy. unfold U16_MAX, ASN_BITS_PER_PART in *. rewrite N.shiftl_mul_pow2.
  change (2 ^ 16) with 65536. change (2 ^ 32) with 4294967296 in Hx.
  change (2 ^ 64) with 18446744073709551616.
  rewrite N.mod_small by lia. change 65536 with (2 ^ 16).
  apply mul_lor. change (2 ^ 16) with 65536. lia.
Qed.

Lemma asn_fold_step_ok a n p : p <= U16_MAX ->
  asn_fold_step (Some (a, n)) (to_digits 16 p) =
  Some (N.lor ((N.shiftl a ASN_BITS_PER_PART) mod 2 ^ 64) p, n + 1).
Proof. intros H. unfold asn_fold_step. rewrite parse_uint_to_digits by (lia || exact H). reflexivity. Qed.

Definition asnch (c : N) : bool := lhexb c || (c =? c_colon).

Lemma display_asn_hex_chars v : forallb asnch (display_asn_hex v) = true.
Proof.
  unfold display_asn_hex. rewrite !forallb_app. cbn [forallb].
  assert (H : forall p, forallb asnch (to_digits 16 p) = true).
  { intros p. pose proof (to_digits_lhex 16 p ltac:(lia) ltac:(lia)) as H.
    apply forallb_forall. intros c Hc. rewrite forallb_forall in H. unfold asnch. rewrite (H c Hc). reflexivity. }
  rewrite !H. reflexivity.
Qed.

Lemma display_asn_chars v : forallb asnch (display_asn v) = true.
Proof.
  unfold display_asn. destruct (v <=? U32_MAX); [|apply display_asn_hex_chars].
  pose proof (to_digits_lhex 10 v ltac:(lia) ltac:(lia)) as H.
  apply forallb_forall. intros c Hc. rewrite forallb_forall in H. unfold asnch. rewrite (H c Hc). reflexivity.
Qed.

Lemma lhex_no (c : N) s : forallb lhexb s = true -> lhexb c = false -> ~ In c s.
Proof. apply forallb_notin. Qed.

(** the colon-hex form parses back, for every AS number (also below 2^32) *)
Lemma parse_asn_hex v : v <= ASN_MAX -> parse_asn (display_asn_hex v) = Ok v.
Proof.
  intros Hv. unfold parse_asn, display_asn_hex.
  set (h2 := to_digits 16 (asn_part v 2)). set (h1 := to_digits 16 (asn_part v 1)).
  set (h0 := to_digits 16 (asn_part v 0)).
  assert (L2 : forallb lhexb h2 = true) by (apply to_digits_lhex; lia).
  assert (L1 : forallb lhexb h1 = true) by (apply to_digits_lhex; lia).
  assert (N2 : h2 <> []) by (apply to_digits_nonempty; lia).
  cbn [app].
  (* not a decimal number *)
  assert (E1 : parse_uint 10 U64_MAX (h2 ++ c_colon :: h1 ++ c_colon :: h0) = None).
  { destruct h2 as [|c t] eqn:E; [congruence|]. cbn [app].
    cbn [forallb] in L2. apply andb_true_iff in L2. destruct L2 as [Hc _].
    rewrite parse_uint_nosign by (unfold lhexb, c_plus, c_dash in *; lia).
    apply (parse_digits_bad 10 U64_MAX _ c_colon); [|reflexivity].
    right. apply in_or_app. right. left. reflexivity. }
  rewrite E1. change (N.to_nat ASN_NUMBER_PARTS) with 3%nat. cbn [splitn].
  rewrite split_once_app by (apply (lhex_no _ _ L2); reflexivity).
  rewrite split_once_app by (apply (lhex_no _ _ L1); reflexivity).
  cbn [fold_left]. unfold h2, h1, h0.
  rewrite !asn_fold_step_ok by apply asn_part_le.
  pose proof (asn_part_le v 2) as B2. pose proof (asn_part_le v 1) as B1. pose proof (asn_part_le v 0) as B0.
  rewrite (asn_step_val 0) by (change (2 ^ 32) with 4294967296; lia || exact B2).
  rewrite (asn_step_val (0 * 65536 + asn_part v 2)) by (change (2 ^ 32) with 4294967296; unfold U16_MAX in *; lia).
  rewrite (asn_step_val ((0 * 65536 + asn_part v 2) * 65536 + asn_part v 1)) by (change (2 ^ 32) with 4294967296; unfold U16_MAX in *; lia).
  change (0 + 1 + 1 + 1 =? ASN_NUMBER_PARTS) with true. cbv iota.
  assert (Ev : ((0 * 65536 + asn_part v 2) * 65536 + asn_part v 1) * 65536 + asn_part v 0 = v).
  { rewrite !asn_part_eq. unfold ASN_BITS_PER_PART, ASN_MAX in *.
    change (2 ^ (16 * 2)) with 4294967296. change (2 ^ (16 * 1)) with 65536.
    change (2 ^ (16 * 0)) with 1. change (2 ^ 16) with 65536. lia. }
  rewrite Ev. unfold asn_new_checked. replace (ASN_MAX <? v) with false by lia. reflexivity.
Qed.

Lemma parse_asn_display v : v <= ASN_MAX -> parse_asn (display_asn v) = Ok v.
Proof.
  intros Hv. unfold display_asn. destruct (v <=? U32_MAX) eqn:E; [|apply parse_asn_hex; exact Hv].
  unfold parse_asn. rewrite parse_uint_to_digits by (unfold U64_MAX, U32_MAX in *; lia).
  rewrite E. reflexivity.
Qed.

Lemma parse_isd_display v : v <= U16_MAX -> parse_isd (display_isd v) = Ok v.
Proof. intros H. unfold parse_isd, display_isd. rewrite parse_uint_to_digits by (lia || exact H). reflexivity. Qed.

(** ** IsdAsn *)
Lemma ia_isd_eq v : ia_isd v = (v / 2 ^ 48) mod 2 ^ 16.
Proof. unfold ia_isd, ASN_BITS. rewrite N.shiftr_div_pow2. reflexivity. Qed.
Lemma ia_asn_eq v : ia_asn v = v mod 2 ^ 48.
Proof. unfold ia_asn. change ASN_MAX with (N.ones 48). apply N.land_ones. Qed.
Lemma ia_new_eq i n : n < 2 ^ 48 -> ia_new i n = i * 2 ^ 48 + n.
Proof. intros H. unfold ia_new, ASN_BITS. apply shl_lor, H. Qed.

Lemma ia_isd_le v : ia_isd v <= U16_MAX.
Proof.
  rewrite ia_isd_eq. pose proof (N.mod_lt (v / 2 ^ 48) (2 ^ 16) ltac:(discriminate)).
  change (2 ^ 16) with 65536 in *. unfold U16_MAX. lia.
Qed.
Lemma ia_asn_le v : ia_asn v <= ASN_MAX.
Proof.
  rewrite ia_asn_eq. pose proof (N.mod_lt v (2 ^ 48) ltac:(discriminate)).
  change (2 ^ 48) with 281474976710656 in *. unfold ASN_MAX. lia.
Qed.

Lemma ia_join v : v < 2 ^ 64 -> ia_new (ia_isd v) (ia_asn v) = v.
Proof.
  intros H. pose proof (ia_asn_le v) as Ha. rewrite ia_new_eq by (unfold ASN_MAX in Ha; change (2 ^ 48) with 281474976710656; lia).
  rewrite ia_isd_eq, ia_asn_eq. change (2 ^ 48) with 281474976710656. change (2 ^ 16) with 65536.
  change (2 ^ 64) with 18446744073709551616 in H. lia.
Qed.

Lemma ia_split i n : i <= U16_MAX -> n <= ASN_MAX -> ia_isd (ia_new i n) = i /\ ia_asn (ia_new i n) = n.
Proof.
  unfold U16_MAX, ASN_MAX. intros Hi Hn.
  rewrite ia_new_eq by (change (2 ^ 48) with 281474976710656; lia).
  rewrite ia_isd_eq, ia_asn_eq. change (2 ^ 48) with 281474976710656. change (2 ^ 16) with 65536. lia.
Qed.

Lemma display_isd_lhex v : forallb lhexb (display_isd v) = true.
Proof. apply to_digits_lhex; lia. Qed.

Lemma count_none (p : N -> bool) c s : forallb p s = true -> p c = false -> count c s = 0.
Proof. intros H Hc. apply count_zero. eapply forallb_notin; eauto. Qed.

Lemma parse_ia_display v : v < 2 ^ 64 -> parse_ia (display_ia v) = Ok v.
Proof.
  intros Hv. unfold parse_ia, display_ia. cbn [app].
  rewrite count_app, count_cons_eq.
  rewrite (count_none lhexb) by (apply display_isd_lhex || reflexivity).
  rewrite (count_none asnch) by (apply display_asn_chars || reflexivity).
  change (negb (N.min 2 (0 + (1 + 0)) =? 1)) with false. cbv iota.
  rewrite split_once_app by (apply (lhex_no _ _ (display_isd_lhex _)); reflexivity).
  rewrite parse_isd_display by apply ia_isd_le. rewrite parse_asn_display by apply ia_asn_le.
  rewrite ia_join by exact Hv. reflexivity.
Qed.

(** ** no panics in the identifier parsers *)
Lemma parse_isd_nopanic s : is_panic (parse_isd s) = false.
Proof. unfold parse_isd. destruct (parse_uint 10 U16_MAX s); reflexivity. Qed.

Lemma parse_asn_nopanic s : is_panic (parse_asn s) = false.
Proof.
  unfold parse_asn. destruct (parse_uint 10 U64_MAX s) as [v|].
  - destruct (v <=? U32_MAX); reflexivity.
  - destruct (fold_left _ _ _) as [[val n]|]; [|reflexivity].
    destruct (n =? ASN_NUMBER_PARTS); [|reflexivity]. destruct (asn_new_checked val); reflexivity.
Qed.

Lemma parse_ia_nopanic s : is_panic (parse_ia s) = false.
Proof.
  unfold parse_ia. destruct (negb (N.min 2 (count c_dash s) =? 1)) eqn:E; [reflexivity|].
  destruct (split_once c_dash s) as [[a b]|] eqn:Es.
  - pose proof (parse_isd_nopanic a) as Hi. pose proof (parse_asn_nopanic b) as Ha.
    destruct (parse_isd a), (parse_asn b); try discriminate; reflexivity.
  - exfalso. apply split_once_none in Es. apply count_zero in Es. rewrite Es in E. discriminate.
Qed.

(** ** identifiers: an accepted string normalises to a form of the value *)
Lemma parse_isd_exact s v : parse_isd s = Ok v -> norm_isd s = display_isd v.
Proof.
  unfold parse_isd. destruct (parse_uint 10 U16_MAX s) eqn:E; [|discriminate]. intros [= <-].
  eapply parse_uint_norm_dec; eauto.
Qed.

Lemma parse_isd_le s v : parse_isd s = Ok v -> v <= U16_MAX.
Proof.
  unfold parse_isd. destruct (parse_uint 10 U16_MAX s) eqn:E; [|discriminate]. intros [= <-].
  eapply parse_uint_le; eauto.
Qed.

Lemma numch_no_colon s : forallb numch s = true -> ~ In c_colon s.
Proof. intros H. eapply forallb_notin; [exact H|reflexivity]. Qed.

Lemma asn_fold_step_some a n g r : asn_fold_step (Some (a, n)) g = Some r ->
  exists x, parse_uint 16 U16_MAX g = Some x /\
            r = (N.lor ((N.shiftl a ASN_BITS_PER_PART) mod 2 ^ 64) x, n + 1).
Proof.
  unfold asn_fold_step. destruct (parse_uint 16 U16_MAX g) as [x|]; [|discriminate].
  intros [= <-]. exists x. split; reflexivity.
Qed.

Lemma asn_fold_none l : fold_left asn_fold_step l None = None.
Proof. induction l; [reflexivity|exact IHl]. Qed.

Lemma parse_asn_hex_inv s v : parse_uint 10 U64_MAX s = None -> parse_asn s = Ok v ->
  exists g2 g1 g0 x2 x1 x0,
    s = g2 ++ c_colon :: g1 ++ c_colon :: g0 /\ ~ In c_colon g2 /\ ~ In c_colon g1 /\
    parse_uint 16 U16_MAX g2 = Some x2 /\ parse_uint 16 U16_MAX g1 = Some x1 /\
    parse_uint 16 U16_MAX g0 = Some x0 /\ v = (x2 * 65536 + x1) * 65536 + x0 /\ v <= ASN_MAX.
Proof.
  intros Hd. unfold parse_asn. rewrite Hd. change (N.to_nat ASN_NUMBER_PARTS) with 3%nat. cbn [splitn].
  destruct (split_once c_colon s) as [[g2 r]|] eqn:E1.
  2:{ cbn [fold_left]. destruct (asn_fold_step (Some (0, 0)) s) as [[val n]|] eqn:E; [|discriminate].
      apply asn_fold_step_some in E. destruct E as (x & _ & [= -> ->]). discriminate. }
  destruct (split_once c_colon r) as [[g1 g0]|] eqn:E2.
  2:{ cbn [fold_left]. destruct (asn_fold_step (Some (0, 0)) g2) as [[val n]|] eqn:E; [|discriminate].
      apply asn_fold_step_some in E. destruct E as (x & _ & [= -> ->]).
      destruct (asn_fold_step _ r) as [[val n]|] eqn:E; [|discriminate].
      apply asn_fold_step_some in E. destruct E as (x' & _ & [= -> ->]). discriminate. }
  cbn [fold_left].
  destruct (asn_fold_step (Some (0, 0)) g2) as [[v2 n2]|] eqn:F2; [|discriminate].
  apply asn_fold_step_some in F2. destruct F2 as (x2 & P2 & [= -> ->]).
  destruct (asn_fold_step _ g1) as [[v1 n1]|] eqn:F1; [|discriminate].
  apply asn_fold_step_some in F1. destruct F1 as (x1 & P1 & [= -> ->]).
  destruct (asn_fold_step _ g0) as [[v0 n0]|] eqn:F0; [|discriminate].
  apply asn_fold_step_some in F0. destruct F0 as (x0 & P0 & [= -> ->]).
  change (0 + 1 + 1 + 1 =? ASN_NUMBER_PARTS) with true. cbv iota.
  pose proof (parse_uint_le _ _ _ _ P2) as B2. pose proof (parse_uint_le _ _ _ _ P1) as B1.
  pose proof (parse_uint_le _ _ _ _ P0) as B0.
  rewrite (asn_step_val 0) by (change (2 ^ 32) with 4294967296; lia || exact B2).
  rewrite (asn_step_val (0 * 65536 + x2)) by (change (2 ^ 32) with 4294967296; unfold U16_MAX in *; lia).
  rewrite (asn_step_val ((0 * 65536 + x2) * 65536 + x1)) by (change (2 ^ 32) with 4294967296; unfold U16_MAX in *; lia).
  unfold asn_new_checked. destruct (ASN_MAX <? _) eqn:Em; [discriminate|]. intros [= <-].
  apply split_once_some in E1. destruct E1 as (-> & N2). apply split_once_some in E2. destruct E2 as (-> & N1).
  exists g2, g1, g0, x2, x1, x0. repeat (split; [assumption || reflexivity|]). lia.
Qed.

Lemma asn_parts_of x2 x1 x0 : x2 <= U16_MAX -> x1 <= U16_MAX -> x0 <= U16_MAX ->
  let v := (x2 * 65536 + x1) * 65536 + x0 in
  asn_part v 2 = x2 /\ asn_part v 1 = x1 /\ asn_part v 0 = x0.
Proof.
  unfold U16_MAX. intros H2 H1 H0. cbv zeta. rewrite !asn_part_eq. unfold ASN_BITS_PER_PART.
  change (2 ^ (16 * 2)) with 4294967296. change (2 ^ (16 * 1)) with 65536.
  change (2 ^ (16 * 0)) with 1. change (2 ^ 16) with 65536. lia.
Qed.

Lemma parse_asn_le s v : parse_asn s = Ok v -> v <= ASN_MAX.
Proof.
  intros H. destruct (parse_uint 10 U64_MAX s) as [d|] eqn:Ed.
  - unfold parse_asn in H. rewrite Ed in H. destruct (d <=? U32_MAX) eqn:E; [|discriminate].
    injection H as <-. unfold U32_MAX, ASN_MAX in *. lia.
  - destruct (parse_asn_hex_inv s v Ed H) as (? & ? & ? & ? & ? & ? & H'). apply H'.
Qed.

Lemma parse_asn_exact s v : parse_asn s = Ok v -> In (norm_asn s) (asn_forms v).
Proof.
  intros H. destruct (parse_uint 10 U64_MAX s) as [d|] eqn:Ed.
  - unfold parse_asn in H. rewrite Ed in H. destruct (d <=? U32_MAX) eqn:E; [|discriminate].
    injection H as <-. left. unfold norm_asn, display_asn. rewrite E.
    rewrite split_all_none by (apply numch_no_colon; eapply parse_uint_chars; eauto).
    symmetry. eapply parse_uint_norm_dec; eauto.
  - destruct (parse_asn_hex_inv s v Ed H) as (g2 & g1 & g0 & x2 & x1 & x0 & -> & N2 & N1 & P2 & P1 & P0 & Ev & _).
    right. left. unfold norm_asn.
    rewrite split_all_app by exact N2. rewrite split_all_app by exact N1.
    rewrite split_all_none by (apply numch_no_colon; eapply parse_uint_chars; eauto).
    cbn [map join].
    rewrite (parse_uint_norm_hex _ _ _ P2), (parse_uint_norm_hex _ _ _ P1), (parse_uint_norm_hex _ _ _ P0).
    pose proof (asn_parts_of x2 x1 x0 (parse_uint_le _ _ _ _ P2) (parse_uint_le _ _ _ _ P1) (parse_uint_le _ _ _ _ P0)) as Hp.
    cbv zeta in Hp. rewrite <- Ev in Hp. destruct Hp as (E2 & E1 & E0).
    unfold display_asn_hex. rewrite E2, E1, E0. cbn [app]. reflexivity.
Qed.

Lemma parse_ia_inv s v : parse_ia s = Ok v ->
  exists a b i n, s = a ++ c_dash :: b /\ ~ In c_dash a /\ ~ In c_dash b /\
    parse_isd a = Ok i /\ parse_asn b = Ok n /\ v = ia_new i n.
Proof.
  unfold parse_ia. destruct (negb (N.min 2 (count c_dash s) =? 1)) eqn:E; [discriminate|].
  destruct (split_once c_dash s) as [[a b]|] eqn:Es; [|discriminate].
  apply split_once_some in Es. destruct Es as (-> & Na).
  rewrite count_app, count_cons_eq in E. apply count_zero in Na.
  assert (Nb : count c_dash b = 0) by lia. apply count_zero in Nb. apply count_zero in Na.
  destruct (parse_isd a) as [i| |] eqn:Ei; destruct (parse_asn b) as [n| |] eqn:En; try discriminate.
  intros [= <-]. exists a, b, i, n. repeat (split; [assumption || reflexivity|]). reflexivity.
Qed.

Lemma parse_ia_exact s v : parse_ia s = Ok v -> In (norm_ia s) (ia_forms v).
Proof.
  intros H. destruct (parse_ia_inv s v H) as (a & b & i & n & -> & Na & Nb & Hi & Hn & ->).
  unfold norm_ia. rewrite split_all_app by exact Na. rewrite split_all_none by exact Nb.
  destruct (ia_split i n (parse_isd_le _ _ Hi) (parse_asn_le _ _ Hn)) as (E1 & E2).
  unfold ia_forms. rewrite E1, E2. rewrite (parse_isd_exact _ _ Hi).
  apply (in_map (fun x => display_isd i ++ [c_dash] ++ x)). apply parse_asn_exact, Hn.
Qed.

(** * Part D: addresses *)

Lemma str_eqb_eq a b : str_eqb a b = true -> a = b.
Proof.
  unfold str_eqb. revert b. induction a as [|x a IH]; intros [|y b] H; try discriminate; [reflexivity|].
  cbn [list_eqb] in H. apply andb_true_iff in H. destruct H as [E H]. apply N.eqb_eq in E. subst.
  f_equal. apply IH, H.
Qed.

(** ** ServiceAddr *)
Lemma svc_named_cases s : s < 2 ^ 16 -> svc_named s = true ->
  s = 1 \/ s = 2 \/ s = 16 \/ s = 32769 \/ s = 32770 \/ s = 32784.
Proof.
  unfold svc_named, svc_to_anycast, SVC_MCAST, SVC_DS, SVC_CS, SVC_WILDCARD.
  change (32768 - 1) with (N.ones 15). rewrite N.land_ones. change (2 ^ 15) with 32768. change (2 ^ 16) with 65536.
  intros H1 H2. lia.
Qed.

Lemma parse_svc_display s : s < 2 ^ 16 -> svc_named s = true -> parse_svc (display_svc s) = Ok s.
Proof.
  intros H1 H2. destruct (svc_named_cases s H1 H2) as [->|[->|[->|[->|[->| ->]]]]]; vm_compute; reflexivity.
Qed.

Lemma parse_svc_inv s v : parse_svc s = Ok v ->
  exists name suffix, In name [s_CS; s_DS; s_Wildcard] /\
    ((s = name /\ suffix = s_A) \/ s = name ++ c_us :: suffix) /\ In suffix [s_A; s_M] /\
    parse_svc s = Ok v.
Proof.
  intros H. pose proof H as H0. unfold parse_svc in H.
  destruct (split_once c_us s) as [[a b]|] eqn:E.
  - apply split_once_some in E. destruct E as (-> & _).
    destruct (str_eqb a s_CS) eqn:E1; [apply str_eqb_eq in E1|
      destruct (str_eqb a s_DS) eqn:E2; [apply str_eqb_eq in E2|
        destruct (str_eqb a s_Wildcard) eqn:E3; [apply str_eqb_eq in E3|discriminate]]];
    (destruct (str_eqb b s_A) eqn:F1; [apply str_eqb_eq in F1|
       destruct (str_eqb b s_M) eqn:F2; [apply str_eqb_eq in F2|discriminate]]);
    subst a b; eexists _, _; (split; [|split; [right; reflexivity|split; [|exact H0]]]); cbn; auto.
  - destruct (str_eqb s s_CS) eqn:E1; [apply str_eqb_eq in E1|
      destruct (str_eqb s s_DS) eqn:E2; [apply str_eqb_eq in E2|
        destruct (str_eqb s s_Wildcard) eqn:E3; [apply str_eqb_eq in E3|discriminate]]];
    subst s; eexists _, s_A; (split; [|split; [left; split; reflexivity|split; [|exact H0]]]); cbn; auto.
Qed.

(** the nine accepted service strings *)
Definition svc_strings : list str :=
  flat_map (fun n => [n; n ++ c_us :: s_A; n ++ c_us :: s_M]) [s_CS; s_DS; s_Wildcard].

Lemma parse_svc_strings s v : parse_svc s = Ok v -> In s svc_strings.
Proof.
  intros H. destruct (parse_svc_inv s v H) as (name & suffix & Hn & Hs & Hx & _).
  cbn [In] in Hn, Hx.
  destruct Hn as [<-|[<-|[<-|[]]]]; destruct Hx as [<-|[<-|[]]]; destruct Hs as [(-> & _)| ->]; cbn; auto 12.
Qed.

Lemma parse_svc_exact s v : parse_svc s = Ok v -> norm_svc s = display_svc v.
Proof.
  intros H. pose proof (parse_svc_strings s v H) as Hin. cbn in Hin.
  repeat (destruct Hin as [<-|Hin]; [vm_compute in H; injection H as <-; vm_compute; reflexivity|]).
  destruct Hin.
Qed.

Lemma parse_svc_nopanic s : is_panic (parse_svc s) = false.
Proof.
  unfold parse_svc. destruct (split_once c_us s) as [[a b]|];
  repeat match goal with |- context [if ?b then _ else _] => destruct b end; reflexivity.
Qed.

(** every accepted service string contains 'S' or 'W': it is neither IPv4 nor IPv6 text *)
Lemma parse_svc_letter s v : parse_svc s = Ok v -> In 83 s \/ In 87 s.
Proof.
  intros H. pose proof (parse_svc_strings s v H) as Hin. cbn in Hin.
  repeat (destruct Hin as [<-|Hin]; [cbn; auto 12|]). destruct Hin.
Qed.

(** ** first_ok *)
Lemma first_ok_nopanic {A} (alts : list (res A)) e :
  Forall (fun a => is_panic a = false) alts -> is_panic (first_ok alts e) = false.
Proof.
  induction 1 as [|a l Ha Hl IH]; [reflexivity|]. cbn [first_ok]. destruct a; [reflexivity|exact IH|discriminate].
Qed.
Lemma first_ok_in {A} (alts : list (res A)) e v : first_ok alts e = Ok v -> In (Ok v) alts.
Proof.
  induction alts as [|a l IH]; [discriminate|]. cbn [first_ok]. destruct a as [x| |].
  - intros [= ->]. left. reflexivity.
  - intros H. right. apply IH, H.
  - discriminate.
Qed.

(** ** no panic below the socket level, for every oracle *)
Lemma parse_hk_nopanic O k s : is_panic (parse_hk O k s) = false.
Proof.
  destruct k; cbn [parse_hk].
  - pose proof (parse_svc_nopanic s). destruct (parse_svc s); try discriminate; reflexivity.
  - destruct (ip4_parse O s); reflexivity.
  - destruct (ip6_parse O s); reflexivity.
Qed.

Lemma parse_host_nopanic O s : is_panic (parse_host O s) = false.
Proof.
  unfold parse_host. destruct (ip4_parse O s); [reflexivity|]. destruct (ip6_parse O s); [reflexivity|].
  pose proof (parse_svc_nopanic s). destruct (parse_svc s); try discriminate; reflexivity.
Qed.

Lemma parse_scion_addr_nopanic O k s : is_panic (parse_scion_addr O k s) = false.
Proof.
  unfold parse_scion_addr. destruct (splitn 2 c_comma s) as [|a [|b l]]; try reflexivity.
  pose proof (parse_ia_nopanic a) as Hi. destruct (parse_ia a); try discriminate; [|reflexivity].
  cbn [obind]. pose proof (parse_hk_nopanic O k b) as Hk. destruct (parse_hk O k b); try discriminate; reflexivity.
Qed.

(** ** the bracket slice *)
Lemma len_app a b : len (a ++ b) = len a + len b.
Proof. unfold len. rewrite app_length. lia. Qed.

Lemma brackets_inv a : starts_with c_lbr a && ends_with c_rbr a = true ->
  exists body, a = c_lbr :: body ++ [c_rbr].
Proof.
  intros H. apply andb_true_iff in H. destruct H as [H1 H2].
  destruct a as [|x a]; [discriminate|]. cbn [starts_with] in H1. apply N.eqb_eq in H1. subst x.
  unfold ends_with in H2. destruct (rev (c_lbr :: a)) as [|y r] eqn:E; [discriminate|].
  cbn [starts_with] in H2. apply N.eqb_eq in H2. subst y.
  apply (f_equal (@rev N)) in E. rewrite rev_involutive in E. cbn [rev] in E.
  destruct (rev r) as [|z r'] eqn:Er.
  - cbn in E. discriminate.
  - cbn [app] in E. injection E as <- ->. exists r'. reflexivity.
Qed.

Lemma nth_error_last {A} (l : list A) x : nth_error (l ++ [x]) (length l) = Some x.
Proof. induction l; [reflexivity|exact IHl]. Qed.

(** the slice [1..len-1] of a bracketed string is its body, provided the byte after '[' is
    not a UTF-8 continuation byte *)
Lemma slice_brackets {E} body :
  match body with [] => true | b :: _ => (b <? 128) || (192 <=? b) end = true ->
  @str_slice E (c_lbr :: body ++ [c_rbr]) 1 (len (c_lbr :: body ++ [c_rbr]) - 1) = Ok body.
Proof.
  intros Hb. unfold str_slice.
  assert (Hl : len (c_lbr :: body ++ [c_rbr]) = len body + 2).
  { unfold len. cbn [length]. rewrite app_length. cbn [length]. lia. }
  rewrite Hl. replace (len body + 2 - 1) with (len body + 1) by lia.
  assert (B1 : is_char_boundary (c_lbr :: body ++ [c_rbr]) 1 = true).
  { unfold is_char_boundary. rewrite Hl. change (N.to_nat 1) with 1%nat. cbn [nth_error].
    destruct body as [|b t]; cbn [app nth_error].
    - reflexivity.
    - rewrite Hb. rewrite !orb_true_r. reflexivity. }
  assert (B2 : is_char_boundary (c_lbr :: body ++ [c_rbr]) (len body + 1) = true).
  { unfold is_char_boundary. rewrite Hl.
    replace (N.to_nat (len body + 1)) with (S (length body)) by (unfold len; lia).
    cbn [nth_error]. rewrite nth_error_last. rewrite !orb_true_r. reflexivity. }
  rewrite B1, B2. replace ((1 <=? len body + 1) && (len body + 1 <=? len body + 2)) with true by lia.
  cbn [andb]. f_equal. change (N.to_nat 1) with 1%nat. cbn [skipn].
  replace (N.to_nat (len body + 1 - 1)) with (length body) by (unfold len; lia).
  rewrite firstn_app, Nat.sub_diag, firstn_all. cbn [firstn]. apply app_nil_r.
Qed.

Lemma slice_brackets_val {E} body x :
  @str_slice E (c_lbr :: body ++ [c_rbr]) 1 (len (c_lbr :: body ++ [c_rbr]) - 1) = Ok x -> x = body.
Proof.
  unfold str_slice. destruct (_ && _); [|discriminate]. intros [= <-].
  assert (Hl : len (c_lbr :: body ++ [c_rbr]) = len body + 2).
  { unfold len. cbn [length]. rewrite app_length. cbn [length]. lia. }
  rewrite Hl. change (N.to_nat 1) with 1%nat. cbn [skipn].
  replace (N.to_nat (len body + 2 - 1 - 1)) with (length body) by (unfold len; lia).
  rewrite firstn_app, Nat.sub_diag, firstn_all. cbn [firstn]. apply app_nil_r.
Qed.

Lemma utf8_ok_second a b r : utf8_ok (a :: b :: r) = true -> a <? 128 = true -> (b <? 128) || (192 <=? b) = true.
Proof.
  intros H Ha. cbn [utf8_ok] in H. rewrite Ha in H.
  destruct r as [|c r']; cbn [utf8_ok] in H;
  repeat match type of H with context [if ?x then _ else _] => destruct x eqn:? end; try discriminate; lia.
Qed.

(** no socket parser panics on a (structurally) valid UTF-8 string, for every oracle *)
Lemma parse_socket_addr_nopanic O k e s : utf8_ok s = true -> is_panic (parse_socket_addr O k e s) = false.
Proof.
  intros Hu. unfold parse_socket_addr, parse_socket_addr_gen.
  destruct (rsplit_once c_colon s) as [[a p]|] eqn:Er; [|reflexivity].
  unfold bracket_reject. destruct (starts_with c_lbr a && ends_with c_rbr a) eqn:Eb; [|reflexivity].
  cbn [negb]. destruct (brackets_inv a Eb) as (body & ->).
  destruct (len (c_lbr :: body ++ [c_rbr]) =? 0) eqn:E0.
  { unfold len in E0. cbn [length] in E0. lia. }
  rewrite slice_brackets.
  - cbn [obind]. pose proof (parse_scion_addr_nopanic O k body) as Hp.
    destruct (parse_scion_addr O k body) as [[ia h]| |]; try discriminate; [|reflexivity].
    destruct (parse_uint 10 U16_MAX p); reflexivity.
  - apply rsplit_once_some in Er. destruct Er as (-> & _).
    destruct body as [|b t]; [reflexivity|]. cbn [app] in Hu. eapply utf8_ok_second; [exact Hu|reflexivity].
Qed.

Lemma is_panic_omap {A B} (f : A -> B) (o : res A) : is_panic (omap f o) = is_panic o.
Proof. destruct o; reflexivity. Qed.

Lemma parse_kind_nopanic_notxt O k s : k <> K_TXT -> utf8_ok s = true -> is_panic (parse_kind O k s) = false.
Proof.
  intros Hk Hu. unfold parse_kind, parse_kind_gen. replace (k =? K_TXT) with false by lia.
  repeat match goal with |- context [if ?b then _ else _] => destruct b end;
  rewrite is_panic_omap;
  first [apply parse_isd_nopanic | apply parse_asn_nopanic | apply parse_ia_nopanic | apply parse_svc_nopanic
        | apply parse_host_nopanic | apply parse_scion_addr_nopanic
        | apply (parse_socket_addr_nopanic O _ _ s Hu)
        | apply first_ok_nopanic; repeat constructor;
          first [apply parse_scion_addr_nopanic | apply (parse_socket_addr_nopanic O _ _ s Hu)]].
Qed.

(** ** the address forms, for every IP oracle that behaves like std's parsers and formatters *)
Section WithIp.
Context (O : iporacle).
Hypothesis RT4 : forall a, a < 2 ^ 32 -> ip4_parse O (ip4_display O a) = Some a.
Hypothesis RT6 : forall a, a < 2 ^ 128 -> ip6_parse O (ip6_display O a) = Some a.
Hypothesis CH4 : forall s a, ip4_parse O s = Some a -> forallb ip4ch s = true.
Hypothesis CH6 : forall s a, ip6_parse O s = Some a -> forallb ip6ch s = true /\ has_colon s = true.

Lemma ip_disjoint s a : ip6_parse O s = Some a -> ip4_parse O s = None.
Proof.
  intros H6. destruct (ip4_parse O s) as [b|] eqn:H4; [|reflexivity]. exfalso.
  apply CH6 in H6. destruct H6 as [_ Hc]. apply CH4 in H4.
  unfold has_colon in Hc. apply existsb_exists in Hc. destruct Hc as (c & Hin & Hc).
  apply N.eqb_eq in Hc. subst c. rewrite forallb_forall in H4. specialize (H4 _ Hin). discriminate.
Qed.

Lemma svc_not_ip s v : parse_svc s = Ok v -> ip4_parse O s = None /\ ip6_parse O s = None.
Proof.
  intros H. apply parse_svc_letter in H. split.
  - destruct (ip4_parse O s) as [a|] eqn:E; [|reflexivity]. exfalso. apply CH4 in E.
    rewrite forallb_forall in E. destruct H as [H|H]; specialize (E _ H); discriminate.
  - destruct (ip6_parse O s) as [a|] eqn:E; [|reflexivity]. exfalso. apply CH6 in E. destruct E as [E _].
    rewrite forallb_forall in E. destruct H as [H|H]; specialize (E _ H); discriminate.
Qed.

Lemma ip4_not_svc s a : ip4_parse O s = Some a -> exists e, parse_svc s = Err e.
Proof.
  intros H. pose proof (parse_svc_nopanic s) as Hp. destruct (parse_svc s) as [v|e|] eqn:E; [|eauto|discriminate].
  apply svc_not_ip in E. destruct E as [E _]. congruence.
Qed.
Lemma ip6_not_svc s a : ip6_parse O s = Some a -> exists e, parse_svc s = Err e.
Proof.
  intros H. pose proof (parse_svc_nopanic s) as Hp. destruct (parse_svc s) as [v|e|] eqn:E; [|eauto|discriminate].
  apply svc_not_ip in E. destruct E as [_ E]. congruence.
Qed.

(** *** hosts *)
Lemma parse_host_display h : host_wf h = true -> host_named h = true ->
  parse_host O (display_host O h) = Ok h.
Proof.
  intros Hw Hn. unfold parse_host. destruct h as [a|a|s]; cbn [display_host host_wf host_named] in *.
  - rewrite RT4 by lia. reflexivity.
  - pose proof (RT6 a ltac:(lia)) as H6. rewrite (ip_disjoint _ _ H6), H6. reflexivity.
  - pose proof (parse_svc_display s ltac:(lia) Hn) as Hs. destruct (svc_not_ip _ _ Hs) as (-> & ->).
    rewrite Hs. reflexivity.
Qed.

Lemma parse_host_exact s h : parse_host O s = Ok h -> norm_host O s = display_host O h.
Proof.
  unfold parse_host, norm_host. destruct (ip4_parse O s) as [a|]; [intros [= <-]; reflexivity|].
  destruct (ip6_parse O s) as [a|]; [intros [= <-]; reflexivity|].
  destruct (parse_svc s) as [v| |] eqn:E; try discriminate. intros [= <-]. apply parse_svc_exact, E.
Qed.

(** *** [parse_hk]: the host parser selected by the type *)
Definition hk_of (h : host) : hkind := match h with HS _ => KSvc | H4 _ => KV4 | H6 _ => KV6 end.

Lemma parse_hk_display h : host_wf h = true -> host_named h = true ->
  parse_hk O (hk_of h) (display_host O h) = Ok h.
Proof.
  intros Hw Hn. destruct h as [a|a|s]; cbn [display_host host_wf host_named hk_of parse_hk] in *.
  - rewrite RT4 by lia. reflexivity.
  - rewrite RT6 by lia. reflexivity.
  - rewrite parse_svc_display by (lia || exact Hn). reflexivity.
Qed.

(** the other two host parsers reject the displayed form *)
Lemma parse_hk_display_other h k : host_wf h = true -> host_named h = true -> k <> hk_of h ->
  exists e, parse_hk O k (display_host O h) = Err e.
Proof.
  intros Hw Hn Hk. destruct h as [a|a|s]; cbn [display_host host_wf host_named hk_of] in *.
  - pose proof (RT4 a ltac:(lia)) as H4. destruct k; cbn [parse_hk]; [|congruence|].
    + destruct (ip4_not_svc _ _ H4) as (e & ->). eauto.
    + destruct (ip6_parse O (ip4_display O a)) as [b|] eqn:E; [|eauto].
      apply ip_disjoint in E. congruence.
  - pose proof (RT6 a ltac:(lia)) as H6. destruct k; cbn [parse_hk]; [| |congruence].
    + destruct (ip6_not_svc _ _ H6) as (e & ->). eauto.
    + rewrite (ip_disjoint _ _ H6). eauto.
  - pose proof (parse_svc_display s ltac:(lia) Hn) as Hs. destruct (svc_not_ip _ _ Hs) as (E4 & E6).
    destruct k; cbn [parse_hk]; [congruence| |]; [rewrite E4|rewrite E6]; eauto.
Qed.

Lemma parse_hk_exact k s h : parse_hk O k s = Ok h -> norm_host O s = display_host O h /\ hk_of h = k.
Proof.
  destruct k; cbn [parse_hk].
  - destruct (parse_svc s) as [v| |] eqn:E; try discriminate. intros [= <-].
    unfold norm_host. destruct (svc_not_ip _ _ E) as (-> & ->). split; [apply parse_svc_exact, E|reflexivity].
  - destruct (ip4_parse O s) as [a|] eqn:E; [|discriminate]. intros [= <-]. unfold norm_host. rewrite E. split; reflexivity.
  - destruct (ip6_parse O s) as [a|] eqn:E; [|discriminate]. intros [= <-]. unfold norm_host.
    rewrite (ip_disjoint _ _ E), E. split; reflexivity.
Qed.

(** *** ScionAddr *)
Definition iach (c : N) : bool := asnch c || (c =? c_dash).
Lemma display_ia_chars v : forallb iach (display_ia v) = true.
Proof.
  unfold display_ia. rewrite !forallb_app. cbn [forallb].
  assert (H1 : forallb iach (display_isd (ia_isd v)) = true).
  { pose proof (display_isd_lhex (ia_isd v)) as H. apply forallb_forall. intros c Hc.
    rewrite forallb_forall in H. unfold iach, asnch. rewrite (H c Hc). reflexivity. }
  assert (H2 : forallb iach (display_asn (ia_asn v)) = true).
  { pose proof (display_asn_chars (ia_asn v)) as H. apply forallb_forall. intros c Hc.
    rewrite forallb_forall in H. unfold iach. rewrite (H c Hc). reflexivity. }
  rewrite H1, H2. reflexivity.
Qed.

Lemma splitn2_display ia t :
  splitn 2 c_comma (display_ia ia ++ c_comma :: t) = [display_ia ia; t].
Proof.
  cbn [splitn]. rewrite split_once_app; [reflexivity|].
  eapply forallb_notin; [apply display_ia_chars|reflexivity].
Qed.

Lemma parse_scion_addr_display ia h : ia < 2 ^ 64 -> host_wf h = true -> host_named h = true ->
  parse_scion_addr O (hk_of h) (display_scion_addr O ia h) = Ok (ia, h).
Proof.
  intros Hi Hw Hn. unfold parse_scion_addr, display_scion_addr. cbn [app]. rewrite splitn2_display.
  rewrite parse_ia_display by exact Hi. cbn [obind]. rewrite parse_hk_display by assumption. reflexivity.
Qed.

Lemma parse_scion_addr_display_other ia h k : ia < 2 ^ 64 -> host_wf h = true -> host_named h = true ->
  k <> hk_of h -> exists e, parse_scion_addr O k (display_scion_addr O ia h) = Err e.
Proof.
  intros Hi Hw Hn Hk. unfold parse_scion_addr, display_scion_addr. cbn [app]. rewrite splitn2_display.
  rewrite parse_ia_display by exact Hi. cbn [obind].
  destruct (parse_hk_display_other h k Hw Hn Hk) as (e & ->). eauto.
Qed.

Lemma parse_scion_addr_inv k s ia h : parse_scion_addr O k s = Ok (ia, h) ->
  exists a b, s = a ++ c_comma :: b /\ ~ In c_comma a /\ parse_ia a = Ok ia /\ parse_hk O k b = Ok h.
Proof.
  unfold parse_scion_addr. cbn [splitn].
  destruct (split_once c_comma s) as [[a b]|] eqn:E; [|discriminate].
  apply split_once_some in E. destruct E as (-> & Na).
  destruct (parse_ia a) as [i| |] eqn:Ei; try discriminate. cbn [obind].
  destruct (parse_hk O k b) as [h'| |] eqn:Eh; try discriminate. intros [= <- <-].
  exists a, b. auto.
Qed.

Lemma parse_scion_addr_exact k s ia h : parse_scion_addr O k s = Ok (ia, h) ->
  In (norm_addr O s) (addr_forms O ia h) /\ hk_of h = k.
Proof.
  intros H. destruct (parse_scion_addr_inv k s ia h H) as (a & b & -> & Na & Hi & Hh).
  destruct (parse_hk_exact _ _ _ Hh) as (En & Ek). split; [|exact Ek].
  unfold norm_addr. rewrite split_once_app by exact Na. rewrite En.
  unfold addr_forms. apply (in_map (fun i => i ++ [c_comma] ++ display_host O h)).
  apply parse_ia_exact, Hi.
Qed.

(** *** socket addresses *)
Lemma display_socket_addr_eq ia h p :
  display_socket_addr O ia h p =
  (c_lbr :: display_scion_addr O ia h ++ [c_rbr]) ++ c_colon :: to_digits 10 p.
Proof.
  unfold display_socket_addr, display_scion_addr. cbn [app]. f_equal.
  rewrite <- !app_assoc. cbn [app]. reflexivity.
Qed.

Lemma ends_with_snoc c body x : ends_with c (x :: body ++ [c]) = true.
Proof. unfold ends_with. cbn [rev]. rewrite rev_app_distr. cbn [rev app starts_with]. apply N.eqb_refl. Qed.

Lemma display_scion_addr_head ia h : exists c t, display_scion_addr O ia h = c :: t /\ lhexb c = true.
Proof.
  unfold display_scion_addr, display_ia.
  pose proof (display_isd_lhex (ia_isd ia)) as Hl.
  pose proof (to_digits_nonempty 10 (ia_isd ia) ltac:(lia)) as Hne. unfold display_isd in *.
  destruct (to_digits 10 (ia_isd ia)) as [|c t]; [congruence|].
  cbn [forallb] in Hl. apply andb_true_iff in Hl. destruct Hl as [Hc _].
  eexists c, _. split; [reflexivity|exact Hc].
Qed.

Lemma parse_socket_prefix k e ia h p : p <= U16_MAX ->
  parse_socket_addr O k e (display_socket_addr O ia h p) =
  match parse_scion_addr O k (display_scion_addr O ia h) with
  | Ok (ia', h') => Ok (ia', h', p) | Err _ => Err e | Panic q => Panic q end.
Proof.
  intros Hp. unfold parse_socket_addr, parse_socket_addr_gen. rewrite display_socket_addr_eq.
  rewrite rsplit_once_app by (apply (lhex_no _ _ (to_digits_lhex 10 p ltac:(lia) ltac:(lia))); reflexivity).
  unfold bracket_reject. cbn [starts_with]. rewrite N.eqb_refl, ends_with_snoc. cbn [andb negb].
  destruct (len (c_lbr :: display_scion_addr O ia h ++ [c_rbr]) =? 0) eqn:E0.
  { unfold len in E0. cbn [length] in E0. lia. }
  rewrite slice_brackets.
  - cbn [obind]. destruct (parse_scion_addr O k (display_scion_addr O ia h)) as [[ia' h']| |]; try reflexivity.
    rewrite parse_uint_to_digits by (lia || exact Hp). reflexivity.
  - destruct (display_scion_addr_head ia h) as (c & t & -> & Hc). unfold lhexb in Hc. lia.
Qed.

Lemma parse_socket_addr_display ia h p e : ia < 2 ^ 64 -> host_wf h = true -> host_named h = true ->
  p <= U16_MAX -> parse_socket_addr O (hk_of h) e (display_socket_addr O ia h p) = Ok (ia, h, p).
Proof.
  intros Hi Hw Hn Hp. rewrite parse_socket_prefix by exact Hp.
  rewrite parse_scion_addr_display by assumption. reflexivity.
Qed.

Lemma parse_socket_addr_display_other ia h p e k : ia < 2 ^ 64 -> host_wf h = true -> host_named h = true ->
  p <= U16_MAX -> k <> hk_of h -> parse_socket_addr O k e (display_socket_addr O ia h p) = Err e.
Proof.
  intros Hi Hw Hn Hp Hk. rewrite parse_socket_prefix by exact Hp.
  destruct (parse_scion_addr_display_other ia h k Hi Hw Hn Hk) as (e' & ->). reflexivity.
Qed.

Lemma parse_socket_addr_exact k e s ia h p : parse_socket_addr O k e s = Ok (ia, h, p) ->
  In (norm_sock O s) (sock_forms O ia h p) /\ hk_of h = k.
Proof.
  unfold parse_socket_addr, parse_socket_addr_gen.
  destruct (rsplit_once c_colon s) as [[a port]|] eqn:Er; [|discriminate].
  apply rsplit_once_some in Er. destruct Er as (-> & Np).
  unfold bracket_reject. destruct (starts_with c_lbr a && ends_with c_rbr a) eqn:Eb; [|discriminate].
  cbn [negb]. destruct (brackets_inv a Eb) as (body & ->).
  destruct (len (c_lbr :: body ++ [c_rbr]) =? 0); [discriminate|].
  destruct (str_slice (c_lbr :: body ++ [c_rbr]) 1 (len (c_lbr :: body ++ [c_rbr]) - 1)) as [inner| |] eqn:Es;
    try discriminate.
  apply slice_brackets_val in Es. subst inner. cbn [obind].
  destruct (parse_scion_addr O k body) as [[ia' h']| |] eqn:Ea; try discriminate.
  destruct (parse_uint 10 U16_MAX port) as [p'|] eqn:Ep; [|discriminate]. intros [= -> -> ->].
  destruct (parse_scion_addr_exact _ _ _ _ Ea) as (Hin & Hk). split; [|exact Hk].
  unfold norm_sock. rewrite rsplit_once_app by exact Np.
  rewrite rev_app_distr. cbn [rev app]. unfold c_lbr at 1, c_rbr at 1. rewrite !N.eqb_refl. cbn [andb].
  rewrite rev_involutive, (parse_uint_norm_dec _ _ _ Ep).
  unfold sock_forms. apply (in_map (fun x => [c_lbr] ++ x ++ [c_rbr; c_colon] ++ to_digits 10 p)). exact Hin.
Qed.

(** *** the enum types: first matching alternative *)
Lemma hk_cases h : (hk_of h = KSvc /\ exists s, h = HS s) \/ (hk_of h = KV4 /\ exists a, h = H4 a) \/ (hk_of h = KV6 /\ exists a, h = H6 a).
Proof. destruct h; cbn; eauto 6. Qed.

Lemma parse_addr_any_display ia h : ia < 2 ^ 64 -> host_wf h = true -> host_named h = true ->
  parse_addr_any O (display_scion_addr O ia h) = Ok (ia, h).
Proof.
  intros Hi Hw Hn. unfold parse_addr_any.
  pose proof (parse_scion_addr_display ia h Hi Hw Hn) as Hd.
  destruct h as [a|a|s]; cbn [hk_of] in Hd.
  - destruct (parse_scion_addr_display_other ia (H4 a) KSvc Hi Hw Hn ltac:(discriminate)) as (e & ->).
    cbn [first_ok]. rewrite Hd. reflexivity.
  - destruct (parse_scion_addr_display_other ia (H6 a) KSvc Hi Hw Hn ltac:(discriminate)) as (e & ->).
    destruct (parse_scion_addr_display_other ia (H6 a) KV4 Hi Hw Hn ltac:(discriminate)) as (e' & ->).
    cbn [first_ok]. rewrite Hd. reflexivity.
  - cbn [first_ok]. rewrite Hd. reflexivity.
Qed.

Lemma parse_addr_ip_display ia h : ia < 2 ^ 64 -> host_wf h = true -> hk_of h <> KSvc ->
  parse_addr_ip O (display_scion_addr O ia h) = Ok (ia, h).
Proof.
  intros Hi Hw Hk. unfold parse_addr_ip.
  assert (Hn : host_named h = true) by (destruct h; [reflexivity|reflexivity|cbn in Hk; congruence]).
  pose proof (parse_scion_addr_display ia h Hi Hw Hn) as Hd.
  destruct h as [a|a|s]; cbn [hk_of] in Hd, Hk; [| |congruence].
  - cbn [first_ok]. rewrite Hd. reflexivity.
  - destruct (parse_scion_addr_display_other ia (H6 a) KV4 Hi Hw Hn ltac:(discriminate)) as (e' & ->).
    cbn [first_ok]. rewrite Hd. reflexivity.
Qed.

Lemma parse_sock_any_display ia h p : ia < 2 ^ 64 -> host_wf h = true -> host_named h = true ->
  p <= U16_MAX -> parse_sock_any O (display_socket_addr O ia h p) = Ok (ia, h, p).
Proof.
  intros Hi Hw Hn Hp. unfold parse_sock_any, parse_sock_k.
  pose proof (fun e => parse_socket_addr_display ia h p e Hi Hw Hn Hp) as Hd.
  pose proof (fun e k => parse_socket_addr_display_other ia h p e k Hi Hw Hn Hp) as Ho.
  destruct h as [a|a|s]; cbn [hk_of] in Hd, Ho.
  - rewrite (Ho _ KSvc) by discriminate. cbn [first_ok]. rewrite Hd. reflexivity.
  - rewrite (Ho _ KSvc), (Ho _ KV4) by discriminate. cbn [first_ok]. rewrite Hd. reflexivity.
  - cbn [first_ok]. rewrite Hd. reflexivity.
Qed.

Lemma parse_sock_ip_display ia h p : ia < 2 ^ 64 -> host_wf h = true -> hk_of h <> KSvc ->
  p <= U16_MAX -> parse_sock_ip O (display_socket_addr O ia h p) = Ok (ia, h, p).
Proof.
  intros Hi Hw Hk Hp. unfold parse_sock_ip, parse_sock_k.
  assert (Hn : host_named h = true) by (destruct h; [reflexivity|reflexivity|cbn in Hk; congruence]).
  pose proof (fun e => parse_socket_addr_display ia h p e Hi Hw Hn Hp) as Hd.
  pose proof (fun e k => parse_socket_addr_display_other ia h p e k Hi Hw Hn Hp) as Ho.
  destruct h as [a|a|s]; cbn [hk_of] in Hd, Ho, Hk; [| |congruence].
  - cbn [first_ok]. rewrite Hd. reflexivity.
  - rewrite (Ho _ KV4) by discriminate. cbn [first_ok]. rewrite Hd. reflexivity.
Qed.

Lemma first_ok_exact {A} (P : A -> Prop) alts e v :
  Forall (fun a => forall x, a = Ok x -> P x) alts -> @first_ok A alts e = Ok v -> P v.
Proof.
  intros Hf H. apply first_ok_in in H. rewrite Forall_forall in Hf. exact (Hf _ H _ eq_refl).
Qed.
End WithIp.

(** * the fifteen types at once *)
Lemma omap_ok {A B} (f : A -> B) (o : res A) v : omap f o = Ok v -> exists x, o = Ok x /\ v = f x.
Proof. destruct o; try discriminate. intros [= <-]. eauto. Qed.

Section Kinds.
Context (O : iporacle).
Hypothesis RT4 : forall a, a < 2 ^ 32 -> ip4_parse O (ip4_display O a) = Some a.
Hypothesis RT6 : forall a, a < 2 ^ 128 -> ip6_parse O (ip6_display O a) = Some a.
Hypothesis CH4 : forall s a, ip4_parse O s = Some a -> forallb ip4ch s = true.
Hypothesis CH6 : forall s a, ip6_parse O s = Some a -> forallb ip6ch s = true /\ has_colon s = true.

Lemma kind_display_parse k v d : k <> K_TXT ->
  val_wf k v = true -> val_named k v = true -> display_kind O k v = Some d -> parse_kind O k d = Ok v.
Proof.
  intros Hnt Hw Hn Hd. destruct v as [n|h|ia h|ia h p|l]; cbn [display_kind val_wf val_named] in *.
  5:{ replace (k =? K_TXT) with false in Hd by lia. discriminate. }
  - unfold parse_kind, parse_kind_gen.
    destruct (k =? K_ISD) eqn:E0.
    { injection Hd as <-. rewrite parse_isd_display; [reflexivity|]. unfold U16_MAX. change (2 ^ 16) with 65536 in Hw. lia. }
    destruct (k =? K_ASN) eqn:E1.
    { injection Hd as <-. rewrite parse_asn_display; [reflexivity|]. unfold ASN_MAX. change (2 ^ 48) with 281474976710656 in Hw. lia. }
    destruct (k =? K_IA) eqn:E2.
    { injection Hd as <-. rewrite parse_ia_display; [reflexivity|]. lia. }
    destruct (k =? K_SVC) eqn:E3; [|discriminate].
    injection Hd as <-. rewrite parse_svc_display; [reflexivity|lia|exact Hn].
  - destruct (k =? K_HOST) eqn:E; [|discriminate]. apply N.eqb_eq in E. subst k. injection Hd as <-.
    change (parse_kind O K_HOST (display_host O h)) with (omap VHost (parse_host O (display_host O h))).
    rewrite (parse_host_display O RT4 RT6 CH4 CH6) by assumption. reflexivity.
  - destruct ((5 <=? k) && (k <=? 9) && host_fits k h) eqn:E; [|discriminate]. injection Hd as <-.
    apply andb_true_iff in Hw. destruct Hw as [Hi Hh].
    assert (Hk : k = 5 \/ k = 6 \/ k = 7 \/ k = 8 \/ k = 9) by lia.
    destruct Hk as [->|[->|[->|[->| ->]]]].
    + change (parse_kind O 5 (display_scion_addr O ia h)) with (omap vaddr (parse_scion_addr O KSvc (display_scion_addr O ia h))).
      destruct h as [a|a|s]; try discriminate.
      pose proof (parse_scion_addr_display O RT4 RT6 CH4 CH6 ia (HS s)) as X; cbn [hk_of] in X; rewrite X by (assumption || lia). reflexivity.
    + change (parse_kind O 6 (display_scion_addr O ia h)) with (omap vaddr (parse_scion_addr O KV4 (display_scion_addr O ia h))).
      destruct h as [a|a|s]; try discriminate.
      pose proof (parse_scion_addr_display O RT4 RT6 CH4 CH6 ia (H4 a)) as X; cbn [hk_of] in X; rewrite X by (assumption || lia). reflexivity.
    + change (parse_kind O 7 (display_scion_addr O ia h)) with (omap vaddr (parse_scion_addr O KV6 (display_scion_addr O ia h))).
      destruct h as [a|a|s]; try discriminate.
      pose proof (parse_scion_addr_display O RT4 RT6 CH4 CH6 ia (H6 a)) as X; cbn [hk_of] in X; rewrite X by (assumption || lia). reflexivity.
    + change (parse_kind O 8 (display_scion_addr O ia h)) with (omap vaddr (parse_addr_any O (display_scion_addr O ia h))).
      rewrite (parse_addr_any_display O RT4 RT6 CH4 CH6) by (assumption || lia). reflexivity.
    + change (parse_kind O 9 (display_scion_addr O ia h)) with (omap vaddr (parse_addr_ip O (display_scion_addr O ia h))).
      rewrite (parse_addr_ip_display O RT4 RT6 CH4 CH6); [reflexivity|lia|assumption|].
      destruct h; discriminate.
  - destruct ((10 <=? k) && (k <=? 14) && host_fits k h) eqn:E; [|discriminate]. injection Hd as <-.
    apply andb_true_iff in Hw. destruct Hw as [Hw Hp]. apply andb_true_iff in Hw. destruct Hw as [Hi Hh].
    assert (Hp' : p <= U16_MAX) by (unfold U16_MAX; change (2 ^ 16) with 65536 in Hp; lia).
    assert (Hk : k = 10 \/ k = 11 \/ k = 12 \/ k = 13 \/ k = 14) by lia.
    destruct Hk as [->|[->|[->|[->| ->]]]].
    + change (parse_kind O 10 (display_socket_addr O ia h p)) with (omap vsock (parse_socket_addr O KSvc ESocketSvc (display_socket_addr O ia h p))).
      destruct h as [a|a|s]; try discriminate.
      pose proof (parse_socket_addr_display O RT4 RT6 CH4 CH6 ia (HS s) p) as X; cbn [hk_of] in X; rewrite X by (assumption || lia). reflexivity.
    + change (parse_kind O 11 (display_socket_addr O ia h p)) with (omap vsock (parse_socket_addr O KV4 ESocketV4 (display_socket_addr O ia h p))).
      destruct h as [a|a|s]; try discriminate.
      pose proof (parse_socket_addr_display O RT4 RT6 CH4 CH6 ia (H4 a) p) as X; cbn [hk_of] in X; rewrite X by (assumption || lia). reflexivity.
    + change (parse_kind O 12 (display_socket_addr O ia h p)) with (omap vsock (parse_socket_addr O KV6 ESocketV6 (display_socket_addr O ia h p))).
      destruct h as [a|a|s]; try discriminate.
      pose proof (parse_socket_addr_display O RT4 RT6 CH4 CH6 ia (H6 a) p) as X; cbn [hk_of] in X; rewrite X by (assumption || lia). reflexivity.
    + change (parse_kind O 13 (display_socket_addr O ia h p)) with (omap vsock (parse_sock_any O (display_socket_addr O ia h p))).
      rewrite (parse_sock_any_display O RT4 RT6 CH4 CH6) by (assumption || lia). reflexivity.
    + change (parse_kind O 14 (display_socket_addr O ia h p)) with (omap vsock (parse_sock_ip O (display_socket_addr O ia h p))).
      rewrite (parse_sock_ip_display O RT4 RT6 CH4 CH6); [reflexivity|lia|assumption| |exact Hp'].
      destruct h; discriminate.
Qed.

Lemma kind_parse_exact k s v : k <> K_TXT -> parse_kind O k s = Ok v -> In (norm O k s) (forms O k v).
Proof.
  intros Hk. unfold parse_kind, parse_kind_gen, norm. replace (k =? K_TXT) with false by lia.
  destruct (k =? K_ISD) eqn:E0.
  { intros H. apply omap_ok in H. destruct H as (x & H & ->). cbn [forms display_kind]. rewrite E0.
    replace (k =? K_ASN) with false by (unfold K_ISD, K_ASN in *; lia). replace (k =? K_IA) with false by (unfold K_ISD, K_IA in *; lia).
    left. symmetry. apply parse_isd_exact, H. }
  destruct (k =? K_ASN) eqn:E1.
  { intros H. apply omap_ok in H. destruct H as (x & H & ->). cbn [forms]. rewrite E1. apply parse_asn_exact, H. }
  destruct (k =? K_IA) eqn:E2.
  { intros H. apply omap_ok in H. destruct H as (x & H & ->). cbn [forms]. rewrite E1, E2. apply parse_ia_exact, H. }
  destruct (k =? K_SVC) eqn:E3.
  { intros H. apply omap_ok in H. destruct H as (x & H & ->). cbn [forms display_kind]. rewrite E0, E1, E2, E3.
    left. symmetry. apply parse_svc_exact, H. }
  destruct (k =? K_HOST) eqn:E4.
  { intros H. apply omap_ok in H. destruct H as (x & H & ->). cbn [forms]. left. symmetry.
    apply parse_host_exact, H. }
  assert (Ha : forall hk w, omap vaddr (parse_scion_addr O hk s) = Ok w -> In (norm_addr O s) (forms O k w)).
  { intros hk w H. apply omap_ok in H. destruct H as ([ia h] & H & ->). cbn [forms vaddr fst snd].
    apply (parse_scion_addr_exact O CH4 CH6) in H. apply H. }
  assert (Hs : forall hk e w, omap vsock (parse_socket_addr O hk e s) = Ok w -> In (norm_sock O s) (forms O k w)).
  { intros hk e w H. apply omap_ok in H. destruct H as ([[ia h] p] & H & ->). cbn [forms vsock fst snd].
    apply (parse_socket_addr_exact O CH4 CH6) in H. apply H. }
  destruct (k =? K_ADDR_SVC) eqn:E5. { replace (k <=? 9) with true by (unfold K_ADDR_SVC in *; lia). apply Ha. }
  destruct (k =? K_ADDR_V4) eqn:E6. { replace (k <=? 9) with true by (unfold K_ADDR_V4 in *; lia). apply Ha. }
  destruct (k =? K_ADDR_V6) eqn:E7. { replace (k <=? 9) with true by (unfold K_ADDR_V6 in *; lia). apply Ha. }
  destruct (k =? K_ADDR) eqn:E8.
  { replace (k <=? 9) with true by (unfold K_ADDR in *; lia). intros H. apply omap_ok in H. destruct H as (x & H & ->).
    unfold parse_addr_any in H. revert H. apply (first_ok_exact (fun x => In (norm_addr O s) (forms O k (vaddr x)))).
    repeat (apply Forall_cons; [intros y Hy; apply (Ha _ _ (f_equal (omap vaddr) Hy))|]); apply Forall_nil. }
  destruct (k =? K_IPADDR) eqn:E9.
  { replace (k <=? 9) with true by (unfold K_IPADDR in *; lia). intros H. apply omap_ok in H. destruct H as (x & H & ->).
    unfold parse_addr_ip in H. revert H. apply (first_ok_exact (fun x => In (norm_addr O s) (forms O k (vaddr x)))).
    repeat (apply Forall_cons; [intros y Hy; apply (Ha _ _ (f_equal (omap vaddr) Hy))|]); apply Forall_nil. }
  assert (Hgt : (k <=? 9) = false).
  { unfold K_ISD, K_ASN, K_IA, K_SVC, K_HOST, K_ADDR_SVC, K_ADDR_V4, K_ADDR_V6, K_ADDR, K_IPADDR in *. lia. }
  rewrite Hgt.
  destruct (k =? K_SOCK_SVC). { apply Hs. }
  destruct (k =? K_SOCK_V4). { apply Hs. }
  destruct (k =? K_SOCK_V6). { apply Hs. }
  destruct (k =? K_SOCK).
  { intros H. apply omap_ok in H. destruct H as (x & H & ->).
    revert H. apply (first_ok_exact (fun x => In (norm_sock O s) (forms O k (vsock x)))).
    repeat (apply Forall_cons; [intros y Hy; apply (Hs _ _ _ (f_equal (omap vsock) Hy))|]); apply Forall_nil. }
  intros H. apply omap_ok in H. destruct H as (x & H & ->).
  revert H. apply (first_ok_exact (fun x => In (norm_sock O s) (forms O k (vsock x)))).
  repeat (apply Forall_cons; [intros y Hy; apply (Hs _ _ _ (f_equal (omap vsock) Hy))|]); apply Forall_nil.
Qed.
End Kinds.

(** * the assumptions on std's IP text are satisfiable *)
Lemma to_digits_dec v : forallb decb (to_digits 10 v) = true.
Proof.
  unfold to_digits. destruct (v =? 0); [reflexivity|].
  apply forallb_forall. intros c Hc. apply in_map_iff in Hc. destruct Hc as (d & <- & Hd).
  apply in_rev in Hd. pose proof (le_digits_lt 10 (S (N.to_nat (N.log2 v))) v ltac:(lia)) as Hf.
  rewrite Forall_forall in Hf. specialize (Hf d Hd). unfold decb, digit_char.
  replace (d <? 10) with true by lia. lia.
Qed.

Lemma toy_oracle_std_like : std_like toy_oracle.
Proof.
  unfold std_like, toy_oracle. cbn [ip4_parse ip6_parse ip4_display ip6_display].
  split; [|split; [|split]].
  - intros a Ha. rewrite rev_app_distr. cbn [rev app]. rewrite rev_involutive.
    change (46 =? 46) with true. rewrite to_digits_dec. cbn [andb].
    apply parse_uint_to_digits; [lia|lia|]. change (2 ^ 32) with 4294967296 in *. lia.
  - intros a Ha. rewrite N.eqb_refl.
    pose proof (to_digits_lhex 16 a ltac:(lia) ltac:(lia)) as Hl. unfold lhexb in Hl. unfold lhexb'. rewrite Hl.
    cbn [andb]. apply parse_uint_to_digits; [lia|lia|].
    change (2 ^ 128) with 340282366920938463463374607431768211456 in *. lia.
  - intros s a. destruct (rev s) as [|d r] eqn:E; [discriminate|].
    destruct ((d =? 46) && forallb decb (rev r)) eqn:Ec; [|discriminate]. intros _.
    apply andb_true_iff in Ec. destruct Ec as [Ed Hr]. apply N.eqb_eq in Ed. subst d.
    apply (f_equal (@rev N)) in E. rewrite rev_involutive in E. cbn [rev] in E. subst s.
    rewrite forallb_app. cbn [forallb]. change (ip4ch 46) with true. rewrite andb_true_r.
    apply forallb_forall. intros c Hc. rewrite forallb_forall in Hr. specialize (Hr c Hc).
    unfold decb in Hr. unfold ip4ch. rewrite Hr. reflexivity.
  - intros s a. destruct s as [|c t]; [discriminate|].
    destruct ((c =? c_colon) && forallb lhexb' t) eqn:Ec; [|discriminate]. intros _.
    apply andb_true_iff in Ec. destruct Ec as [Ed Hr]. apply N.eqb_eq in Ed. subst c. split.
    + cbn [forallb]. change (ip6ch c_colon) with true. cbn [andb].
      apply forallb_forall. intros c Hc. rewrite forallb_forall in Hr. specialize (Hr c Hc).
      unfold lhexb' in Hr. unfold ip6ch, c_colon. lia.
    + reflexivity.
Qed.
