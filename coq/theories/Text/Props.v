(** C15 -- property theorems only.  Each is closed by [exact]/short glue from lemmas of
    [Proofs] and followed by [Print Assumptions].

    Types: [parse_kind O k] / [display_kind O k] are [FromStr] / [Display] of the k-th of the
    fifteen types Isd, Asn, IsdAsn, ServiceAddr, ScionHostAddr, ScionAddr{Svc,V4,V6},
    ScionAddr, ScionIpAddr, ScionSocketAddr{Svc,V4,V6}, ScionSocketAddr, ScionSocketIpAddr.
    [O] stands for std's Ipv4Addr/Ipv6Addr parsers and formatters, about which only
    [std_like O] is assumed (and shown satisfiable).

    [parse_kind O K_TXT] is the DNS TXT record parser of scion-stack (resolver/txt.rs,
    reached through a verif-hooks entry point); it has no [Display], its "displayed form" is
    the record grammar of the module documentation ([display_txt]). *)
From Sci Require Import Text.Model Text.Spec Text.Proofs Text.ProofsTxt Text.ProofsIp.
Local Open Scope N_scope.

(** ** identifiers: display then parse is the identity, for every value of the type *)
Theorem isd_display_parse : forall v, v < 2 ^ 16 -> parse_isd (display_isd v) = Ok v.
Proof. intros v H. apply parse_isd_display. unfold U16_MAX. change (2 ^ 16) with 65536 in H. lia. Qed.
Print Assumptions isd_display_parse.

(** every 48-bit AS number (the range [Asn::new], [new_checked], [FromStr] and [IsdAsn::asn]
    produce; the public tuple field also admits larger numbers, for which [Display] drops
    the high bits) *)
Theorem asn_display_parse : forall v, v < 2 ^ 48 -> parse_asn (display_asn v) = Ok v.
Proof. intros v H. apply parse_asn_display. unfold ASN_MAX. change (2 ^ 48) with 281474976710656 in H. lia. Qed.
Print Assumptions asn_display_parse.

Theorem isd_asn_display_parse : forall v, v < 2 ^ 64 -> parse_ia (display_ia v) = Ok v.
Proof. exact parse_ia_display. Qed.
Print Assumptions isd_asn_display_parse.

(** ** identifiers: no byte string (valid UTF-8 or not) makes a parser panic *)
Theorem identifiers_never_panic :
  forall s, is_panic (parse_isd s) = false /\ is_panic (parse_asn s) = false /\ is_panic (parse_ia s) = false.
Proof. intros s. exact (conj (parse_isd_nopanic s) (conj (parse_asn_nopanic s) (parse_ia_nopanic s))). Qed.
Print Assumptions identifiers_never_panic.

(** ** identifiers: an accepted string is a form of the value up to the std-integer
    spellings (one '+', leading zeros, hex case); nothing else is accepted *)
Theorem isd_parse_exact : forall s v, parse_isd s = Ok v -> norm_isd s = display_isd v.
Proof. exact parse_isd_exact. Qed.
Print Assumptions isd_parse_exact.

Theorem asn_parse_exact : forall s v, parse_asn s = Ok v ->
  norm_asn s = display_asn v \/ norm_asn s = display_asn_hex v.
Proof.
  intros s v H. apply parse_asn_exact in H. destruct H as [H|[H|[]]]; [left|right]; symmetry; exact H.
Qed.
Print Assumptions asn_parse_exact.

Theorem isd_asn_parse_exact : forall s v, parse_ia s = Ok v -> In (norm_ia s) (ia_forms v).
Proof. exact parse_ia_exact. Qed.
Print Assumptions isd_asn_parse_exact.

(** ** service addresses *)
Theorem service_display_parse :
  forall s, s < 2 ^ 16 -> svc_named s = true -> parse_svc (display_svc s) = Ok s.
Proof. exact parse_svc_display. Qed.
Print Assumptions service_display_parse.

Theorem service_parse_exact : forall s v, parse_svc s = Ok v -> norm_svc s = display_svc v.
Proof. exact parse_svc_exact. Qed.
Print Assumptions service_parse_exact.

(** ** all fifteen types and the TXT record: display then parse is the identity.
    PARTIAL with respect to "every host value": service addresses outside the three named
    services are excluded ([val_named]); for those the sentence is refuted
    (Findings.svc_unnamed_roundtrip_refuted, known finding C15-svc-unnamed).
    [val_wf] is the value range of the Rust type; [display_kind O k v = Some d] says the
    k-th type can hold [v] (for TXT: a non-empty list of IP hosts) and displays it as [d]. *)
Theorem display_parse_partial :
  forall O, std_like O -> forall k v d,
    val_wf k v = true -> val_named k v = true -> display_kind O k v = Some d ->
    parse_kind O k d = Ok v.
Proof. intros O HO k v d. exact (kind_display_parse_all O k v d HO). Qed.
Print Assumptions display_parse_partial.

(** consequently the displayed form identifies the value *)
Theorem display_injective_partial :
  forall O, std_like O -> forall k v v' d,
    val_wf k v = true -> val_named k v = true -> val_wf k v' = true -> val_named k v' = true ->
    display_kind O k v = Some d -> display_kind O k v' = Some d -> v = v'.
Proof.
  intros O HO k v v' d Hw Hn Hw' Hn' Hd Hd'.
  pose proof (kind_display_parse_all O k v d HO Hw Hn Hd) as H1.
  pose proof (kind_display_parse_all O k v' d HO Hw' Hn' Hd') as H2. congruence.
Qed.
Print Assumptions display_injective_partial.

(** ** all fifteen types and the TXT record: a string is accepted only if it normalises to a
    form of the value (no leading or trailing garbage, no other spelling) *)
Theorem parse_exact :
  forall O, std_like O -> forall k s v, parse_kind O k s = Ok v -> In (norm O k s) (forms O k v).
Proof. intros O HO k s v. exact (kind_parse_exact_all O k s v HO). Qed.
Print Assumptions parse_exact.

(** ** all fifteen types and the TXT record: no string makes a parser panic -- for every IP
    oracle whatsoever.  [utf8_ok] is the structural part of the UTF-8 invariant of Rust's
    [&str] (byte-index slicing panics off a char boundary; see Findings.invalid_utf8_slice). *)
Theorem parse_never_panics :
  forall O k s, utf8_ok s = true -> is_panic (parse_kind O k s) = false.
Proof. exact parse_kind_nopanic. Qed.
Print Assumptions parse_never_panics.

(** the repaired defect, spelled out for every IP oracle: whatever a socket-address parser
    accepts is '[' address ']' ':' port, with nothing in front of the bracket and nothing
    after the port token *)
Theorem socket_accept_shape :
  forall O k e s r, parse_socket_addr O k e s = Ok r ->
    exists body port, s = [c_lbr] ++ body ++ [c_rbr; c_colon] ++ port /\ ~ In c_colon port /\
      (exists p, parse_uint 10 U16_MAX port = Some p /\ snd r = p) /\
      parse_scion_addr O k body = Ok (fst r).
Proof. exact parse_socket_addr_shape. Qed.
Print Assumptions socket_accept_shape.

(** the TXT instance of [display_parse_partial], spelled out *)
Theorem txt_display_parse :
  forall O, std_like O -> forall l, l <> [] ->
    forallb (fun p => (fst p <? 2 ^ 64) && host_wf (snd p) && is_ip (snd p)) l = true ->
    parse_txt_record O (display_txt O l) = Ok l.
Proof.
  intros O (RT4 & RT6 & CH4 & CH6) l. exact (parse_txt_record_display O RT4 RT6 CH4 CH6 l).
Qed.
Print Assumptions txt_display_parse.

(** the assumptions on std's IP text are satisfiable: by parsers/formatters of the real syntax
    (dotted quad; eight uncompressed hex groups) and by a toy syntax *)
Theorem ip_assumptions_satisfiable : std_like real_oracle /\ std_like toy_oracle.
Proof. exact (conj real_oracle_std_like toy_oracle_std_like). Qed.
Print Assumptions ip_assumptions_satisfiable.

(** non-vacuity: "[1-ff00:0:110,10.0.0.1]:80" through the dotted-quad instance *)
Example display_parse_example_v4 :
  display_kind real_oracle K_SOCK (VSock 561850441793808 (H4 167772161) 80) =
    Some [91; 49; 45; 102; 102; 48; 48; 58; 48; 58; 49; 49; 48; 44; 49; 48; 46; 48; 46; 48; 46; 49; 93; 58; 56; 48] /\
  parse_kind real_oracle K_SOCK [91; 49; 45; 102; 102; 48; 48; 58; 48; 58; 49; 49; 48; 44; 49; 48; 46; 48; 46; 48; 46; 49; 93; 58; 56; 48]
    = Ok (VSock 561850441793808 (H4 167772161) 80).
Proof. vm_compute. split; reflexivity. Qed.

(** non-vacuity: a TXT record through the toy oracle *)
Example txt_example :
  parse_kind toy_oracle K_TXT (display_txt toy_oracle [(281474976710657, H4 7); (562949953421314, H6 255)])
  = Ok (VList [(281474976710657, H4 7); (562949953421314, H6 255)]).
Proof. vm_compute. reflexivity. Qed.

(** non-vacuity: a socket address with an IPv6 host through the toy oracle *)
Example display_parse_example :
  display_kind toy_oracle K_SOCK (VSock 561850441793808 (H6 1) 443) =
    Some [91; 49; 45; 102; 102; 48; 48; 58; 48; 58; 49; 49; 48; 44; 58; 49; 93; 58; 52; 52; 51] /\
  parse_kind toy_oracle K_SOCK [91; 49; 45; 102; 102; 48; 48; 58; 48; 58; 49; 49; 48; 44; 58; 49; 93; 58; 52; 52; 51]
    = Ok (VSock 561850441793808 (H6 1) 443).
Proof. vm_compute. split; reflexivity. Qed.
