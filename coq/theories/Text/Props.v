(** C15 -- property theorems only.  Each is closed by [exact] of a lemma of [Proofs] and
    followed by [Print Assumptions]. *)
From Sci Require Import Text.Model Text.Spec Text.Proofs.
Local Open Scope N_scope.

(** ** identifiers: display then parse is the identity, for every value of the type *)
Theorem isd_display_parse : forall v, v < 2 ^ 16 -> parse_isd (display_isd v) = Ok v.
Proof. intros v H. apply parse_isd_display. unfold U16_MAX. change (2 ^ 16) with 65536 in H. lia. Qed.
Print Assumptions isd_display_parse.

(** every 48-bit AS number (the range [Asn::new], [new_checked], [FromStr] and [IsdAsn::asn]
    produce; the public tuple field also admits larger numbers, for which [Display] drops
    the high bits) *)
Theorem asn_display_parse : forall v, v < 2 ^ 48 -> parse_asn (display_asn v) = Ok v.
Proof. intros v H. apply parse_asn_display. unfold ASN_MAX. change (2 ^ 48) with 281474976710656 in H. lia. Qed.
Print Assumptions asn_display_parse.

Theorem isd_asn_display_parse : forall v, v < 2 ^ 64 -> parse_ia (display_ia v) = Ok v.
Proof. exact parse_ia_display. Qed.
Print Assumptions isd_asn_display_parse.

(** ** identifiers: no byte string makes a parser panic *)
Theorem identifiers_never_panic :
  forall s, is_panic (parse_isd s) = false /\ is_panic (parse_asn s) = false /\ is_panic (parse_ia s) = false.
Proof. intros s. exact (conj (parse_isd_nopanic s) (conj (parse_asn_nopanic s) (parse_ia_nopanic s))). Qed.
Print Assumptions identifiers_never_panic.
