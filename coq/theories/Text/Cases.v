(** Correspondence driver for C15: evaluated by [vm_compute] on case files written by the
    Rust harness (harness/hc_text/src/bin/h_text.rs).  A case is one [FromStr] call of the
    implementation (type [t_kind], input [t_in], observed result [t_res]); when [t_val] is
    [Some v] the input is the implementation's [Display] of [v].  [t_ip] / [t_disp] are the
    std IP oracle tables.  The model is run on the same input and compared; the property
    oracles of [Spec] are evaluated on the IMPLEMENTATION's observed output. *)
From Sci Require Export Text.Model Text.Spec.
Local Open Scope N_scope.

(** compact string literals of the case files: [n] bytes, big endian *)
Definition bs (n v : N) : str := be_bytes (N.to_nat n) v.

Inductive ires := ROk (v : val) | RErr (code : N) | RPanic.

Record tcase := mkT {
  t_kind : N; t_in : str; t_ip : list (str * host); t_res : ires;
  t_disp : list (host * str); t_show : option str; t_val : option val }.

Definition host_eqb (a b : host) : bool :=
  match a, b with
  | H4 x, H4 y | H6 x, H6 y | HS x, HS y => x =? y
  | _, _ => false
  end.
Definition val_eqb (a b : val) : bool :=
  match a, b with
  | VNum x, VNum y => x =? y
  | VHost x, VHost y => host_eqb x y
  | VAddr i x, VAddr j y => (i =? j) && host_eqb x y
  | VSock i x p, VSock j y q => (i =? j) && host_eqb x y && (p =? q)
  | VList x, VList y => list_eqb (fun a b => (fst a =? fst b) && host_eqb (snd a) (snd b)) x y
  | _, _ => false
  end.
Definition ires_eqb (a b : ires) : bool :=
  match a, b with
  | ROk x, ROk y => val_eqb x y
  | RErr x, RErr y => x =? y
  | RPanic, RPanic => true
  | _, _ => false
  end.
Definition ostr_eqb (a b : option str) : bool :=
  match a, b with Some x, Some y => str_eqb x y | None, None => true | _, _ => false end.

Fixpoint lookup_ip (s : str) (t : list (str * host)) : option host :=
  match t with [] => None | (k, h) :: r => if str_eqb k s then Some h else lookup_ip s r end.
Fixpoint lookup_disp (h : host) (t : list (host * str)) : str :=
  match t with [] => [] | (k, s) :: r => if host_eqb k h then s else lookup_disp h r end.

Definition oracle_of (c : tcase) : iporacle :=
  mkIp (fun s => match lookup_ip s (t_ip c) with Some (H4 a) => Some a | _ => None end)
       (fun s => match lookup_ip s (t_ip c) with Some (H6 a) => Some a | _ => None end)
       (fun a => lookup_disp (H4 a) (t_disp c))
       (fun a => lookup_disp (H6 a) (t_disp c)).

Definition err_code (e : perr) : N :=
  match e with
  | EIsd => 1 | EAsn => 2 | EIsdAsn => 3 | EService => 4 | EHostAddr => 5 | EScion => 6
  | EScionV4 => 7 | EScionV6 => 8 | EScionSvc => 9 | ESocket => 10 | ESocketV4 => 11
  | ESocketV6 => 12 | ESocketSvc => 13 | ESvcStr => 20 | ETxt c => 30 + c
  end.
Definition enc_res (r : res val) : ires :=
  match r with Ok v => ROk v | Err e => RErr (err_code e) | Panic _ => RPanic end.

Definition verdict (c : tcase) : N :=
  let O := oracle_of c in
  let k := t_kind c in
  let s := t_in c in
  let model := enc_res (parse_kind O k s) in
  (* model vs implementation: FromStr result, Display of the parsed value, Display of the given value *)
  let mis_parse := negb (ires_eqb model (t_res c)) in
  let mis_show := match t_res c with
                  | ROk v => negb (k =? K_TXT) && negb (ostr_eqb (display_kind O k v) (t_show c))
                  | _ => false
                  end in
  let mis_disp := match t_val c with
                  | Some v => negb (ostr_eqb (display_kind O k v) (Some s))
                  | None => false
                  end in
  (* the hypotheses about std's IP text used by the theorems, on every observed std result *)
  let std_bad := negb (forallb (fun '(t, h) => match h with
                                               | H4 _ => forallb ip4ch t
                                               | H6 _ => forallb ip6ch t && has_colon t
                                               | HS _ => false end) (t_ip c))
              || negb (utf8_ok s) in
  (* property oracles on the implementation's output *)
  let panicked := match t_res c with RPanic => true | _ => false end in
  let inexact := match t_res c with ROk v => negb (exact_ok O k s v) | _ => false end in
  let rt_fail := match t_val c with Some v => negb (ires_eqb (t_res c) (ROk v)) | None => false end in
  let known := match t_val c with Some v => rt_fail && negb (val_named k v) && val_wf k v | None => false end in
  let unknown := panicked || inexact || (rt_fail && negb known) in
  (if mis_parse || mis_show || mis_disp || std_bad then 1 else 0) + (if unknown then 2 else 0) + (if known then 16 else 0).

Definition verdicts (cs : list tcase) : list N := map verdict cs.
