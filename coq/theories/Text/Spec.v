(** Executable statement of C15 over observable behaviour (strings in, values out).
    Uses only the generic string primitives and the [Display] models of [Model]; none of the
    parsers.  The same definitions are used in the theorems of [Props] and, evaluated on the
    implementation's output, as the search oracles of the correspondence check.

    "Documented alternative spellings" made precise: an accepted string, after the
    normalisation [norm] below, is one of the [forms] of the value.  [norm] keeps the
    punctuation skeleton of the string and rewrites only
      - each number token: one leading '+' is removed, leading zeros are removed, hex digits
        A-F are lowered (the spellings Rust's [from_str] / [from_str_radix] accept);
      - a service name: the explicit anycast suffix "_A" is removed;
      - an IP host: replaced by std's display of the address std parsed it as.
    [forms] of a value are its display form and, for an AS number below 2^32, also the
    colon-hex form (the parser accepts both notations for every AS number). *)
From Sci Require Export Text.Model.
Local Open Scope N_scope.

Definition lower_hex (b : N) : N := if (65 <=? b) && (b <=? 70) then b + 32 else b.
Fixpoint strip_zeros (s : str) : str :=
  match s with
  | b :: ((_ :: _) as r) => if b =? 48 then strip_zeros r else s
  | _ => s
  end.
Definition strip_plus (s : str) : str :=
  match s with b :: ((_ :: _) as r) => if b =? c_plus then r else s | _ => s end.
Definition norm_dec (s : str) : str := strip_zeros (strip_plus s).
Definition norm_hex (s : str) : str := map lower_hex (strip_zeros (strip_plus s)).

Fixpoint split_all (c : N) (s : str) : list str :=
  match s with
  | [] => [[]]
  | b :: r =>
    if b =? c then [] :: split_all c r
    else match split_all c r with h :: t => (b :: h) :: t | [] => [[b]] end
  end.
Fixpoint join (c : N) (l : list str) : str :=
  match l with [] => [] | [a] => a | a :: r => a ++ c :: join c r end.

Definition norm_isd (s : str) : str := norm_dec s.
Definition norm_asn (s : str) : str :=
  match split_all c_colon s with [d] => norm_dec d | parts => join c_colon (map norm_hex parts) end.
Definition norm_ia (s : str) : str :=
  match split_all c_dash s with [i; a] => norm_isd i ++ [c_dash] ++ norm_asn a | _ => s end.
Definition norm_svc (s : str) : str :=
  match rev s with
  | a :: u :: r => if (a =? 65) && (u =? c_us) then rev r else s
  | _ => s
  end.
Definition norm_host (O : iporacle) (s : str) : str :=
  match ip4_parse O s with
  | Some a => ip4_display O a
  | None => match ip6_parse O s with Some a => ip6_display O a | None => norm_svc s end
  end.
Definition norm_addr (O : iporacle) (s : str) : str :=
  match split_once c_comma s with
  | Some (a, b) => norm_ia a ++ [c_comma] ++ norm_host O b
  | None => s
  end.
Definition norm_sock (O : iporacle) (s : str) : str :=
  match rsplit_once c_colon s with
  | Some (b :: r, p) =>
    match rev r with
    | e :: body_rev =>
      if (b =? c_lbr) && (e =? c_rbr)
      then [c_lbr] ++ norm_addr O (rev body_rev) ++ [c_rbr; c_colon] ++ norm_dec p
      else s
    | [] => s
    end
  | _ => s
  end.

(** TXT records: the whitespace the parser trims (around the payload, around each bracketed
    entry, around the ISD-AS and the host inside an entry, around the separating commas) is
    removed; the ISD-AS and the host are normalised as above *)
Fixpoint norm_txt_entries (fuel : nat) (O : iporacle) (t : str) : str :=
  match fuel with
  | O => t
  | S f =>
    match t with
    | [] => []
    | b :: r =>
      if b =? c_lbr then
        match split_once c_rbr r with
        | Some (entry, after) =>
          let e := match split_once c_comma (trim entry) with
                   | Some (a, h) => norm_ia (trim a) ++ [c_comma] ++ norm_host O (trim h)
                   | None => trim entry
                   end in
          [c_lbr] ++ e ++ [c_rbr] ++
          match trim after with
          | [] => []
          | c :: r' => if c =? c_comma then c_comma :: norm_txt_entries f O (trim r') else c :: r'
          end
        | None => t
        end
      else t
    end
  end.
Definition norm_txt (O : iporacle) (s : str) : str :=
  match strip_prefix SCION_TXT_PREFIX s with
  | Some p => SCION_TXT_PREFIX ++ norm_txt_entries (S (length p)) O (trim p)
  | None => s
  end.

Definition norm (O : iporacle) (k : N) (s : str) : str :=
  if k =? K_TXT then norm_txt O s else
  if k =? K_ISD then norm_isd s else if k =? K_ASN then norm_asn s else if k =? K_IA then norm_ia s
  else if k =? K_SVC then norm_svc s else if k =? K_HOST then norm_host O s
  else if k <=? 9 then norm_addr O s else norm_sock O s.

Definition asn_forms (v : N) : list str := [display_asn v; display_asn_hex v].
Definition ia_forms (v : N) : list str :=
  map (fun a => display_isd (ia_isd v) ++ [c_dash] ++ a) (asn_forms (ia_asn v)).
Definition addr_forms (O : iporacle) (ia : N) (h : host) : list str :=
  map (fun i => i ++ [c_comma] ++ display_host O h) (ia_forms ia).
Definition sock_forms (O : iporacle) (ia : N) (h : host) (p : N) : list str :=
  map (fun a => [c_lbr] ++ a ++ [c_rbr; c_colon] ++ to_digits 10 p) (addr_forms O ia h).

(** every entry in either AS notation *)
Fixpoint txt_forms (O : iporacle) (l : list (N * host)) : list str :=
  match l with
  | [] => [[]]
  | (ia, h) :: r =>
    flat_map (fun a => map (fun t => [c_lbr] ++ a ++ [c_rbr] ++ match r with [] => [] | _ => [c_comma] end ++ t)
                           (txt_forms O r))
             (addr_forms O ia h)
  end.

Definition forms (O : iporacle) (k : N) (v : val) : list str :=
  match v with
  | VNum n => if k =? K_ASN then asn_forms n else if k =? K_IA then ia_forms n
              else match display_kind O k v with Some d => [d] | None => [] end
  | VHost h => [display_host O h]
  | VAddr ia h => addr_forms O ia h
  | VSock ia h p => sock_forms O ia h p
  | VList l => map (fun e => SCION_TXT_PREFIX ++ e) (txt_forms O l)
  end.

(** Rust's [&str] is valid UTF-8.  The structural part of that invariant (lead bytes followed
    by the right number of continuation bytes; a superset of valid UTF-8) is the
    precondition of the no-panic theorem: byte-index slicing panics off a char boundary. *)
Definition is_cont (b : N) : bool := (128 <=? b) && (b <? 192).
Fixpoint utf8_ok (s : str) : bool :=
  match s with
  | [] => true
  | b :: r =>
    if b <? 128 then utf8_ok r
    else if (194 <=? b) && (b <? 224) then
      match r with c1 :: r1 => is_cont c1 && utf8_ok r1 | _ => false end
    else if (224 <=? b) && (b <? 240) then
      match r with c1 :: c2 :: r2 => is_cont c1 && is_cont c2 && utf8_ok r2 | _ => false end
    else if (240 <=? b) && (b <? 245) then
      match r with c1 :: c2 :: c3 :: r3 => is_cont c1 && is_cont c2 && is_cont c3 && utf8_ok r3 | _ => false end
    else false
  end.

(** the alphabets of std's IP text forms (hypotheses of the theorems; checked on every
    oracle-table entry in the correspondence) *)
Definition ip4ch (c : N) : bool := ((48 <=? c) && (c <=? 57)) || (c =? 46).
Definition ip6ch (c : N) : bool :=
  ((48 <=? c) && (c <=? 57)) || ((97 <=? c) && (c <=? 102)) || ((65 <=? c) && (c <=? 70)) ||
  (c =? c_colon) || (c =? 46).
Definition has_colon (s : str) : bool := existsb (N.eqb c_colon) s.

(** the property's three oracles on an observed behaviour *)
Definition exact_ok (O : iporacle) (k : N) (s : str) (v : val) : bool :=
  existsb (str_eqb (norm O k s)) (forms O k v).

(** Known-finding class C15-svc-unnamed: a service address whose anycast part is not one of
    the three named services is displayed in a print-only form. *)
Definition svc_named (s : N) : bool :=
  let a := svc_to_anycast s in (a =? SVC_DS) || (a =? SVC_CS) || (a =? SVC_WILDCARD).
Definition host_named (h : host) : bool := match h with HS s => svc_named s | _ => true end.
Definition val_named (k : N) (v : val) : bool :=
  match v with
  | VNum n => if k =? K_SVC then svc_named n else true
  | VHost h | VAddr _ h | VSock _ h _ => host_named h
  | VList _ => true
  end.

(** value ranges of the Rust types *)
Definition host_wf (h : host) : bool :=
  match h with H4 a => a <? 2 ^ 32 | H6 a => a <? 2 ^ 128 | HS s => s <? 2 ^ 16 end.
Definition val_wf (k : N) (v : val) : bool :=
  match v with
  | VNum n => if k =? K_ISD then n <? 2 ^ 16 else if k =? K_ASN then n <? 2 ^ 48
              else if k =? K_IA then n <? 2 ^ 64 else n <? 2 ^ 16
  | VHost h => host_wf h
  | VAddr ia h => (ia <? 2 ^ 64) && host_wf h
  | VSock ia h p => (ia <? 2 ^ 64) && host_wf h && (p <? 2 ^ 16)
  | VList l => forallb (fun p => (fst p <? 2 ^ 64) && host_wf (snd p)) l
  end.

(** What the theorems assume of std's IP parsers and formatters (trusted base): display then
    parse is the identity on the address range; IPv4 text consists of digits and dots; IPv6
    text consists of hex digits, colons and dots and contains a colon. *)
Definition std_like (O : iporacle) : Prop :=
  (forall a, a < 2 ^ 32 -> ip4_parse O (ip4_display O a) = Some a) /\
  (forall a, a < 2 ^ 128 -> ip6_parse O (ip6_display O a) = Some a) /\
  (forall s a, ip4_parse O s = Some a -> forallb ip4ch s = true) /\
  (forall s a, ip6_parse O s = Some a -> forallb ip6ch s = true /\ has_colon s = true).

(** a (toy) instance, showing the assumptions are satisfiable: IPv4 "<decimal>.", IPv6 ":<hex>" *)
Definition decb (c : N) : bool := (48 <=? c) && (c <=? 57).
Definition lhexb' (c : N) : bool := ((48 <=? c) && (c <=? 57)) || ((97 <=? c) && (c <=? 102)).
Definition toy_oracle : iporacle :=
  mkIp (fun s => match rev s with
                 | d :: r => if (d =? 46) && forallb decb (rev r) then parse_uint 10 (2 ^ 32 - 1) (rev r) else None
                 | [] => None end)
       (fun s => match s with
                 | c :: t => if (c =? c_colon) && forallb lhexb' t then parse_uint 16 (2 ^ 128 - 1) t else None
                 | [] => None end)
       (fun a => to_digits 10 a ++ [46])
       (fun a => c_colon :: to_digits 16 a).
