(** A realistic instance of the assumptions [std_like] on std's IP text: dotted-quad IPv4 and
    the uncompressed eight-group form of IPv6 (both are accepted by std; std's own Display
    additionally compresses IPv6).  Shows the assumptions are satisfiable by parsers of the
    real syntax, not only by the toy instance of [Spec]. *)
From Coq Require Import Lia ZifyBool ZifyNat ZifyN.
From Sci Require Import Text.Model Text.Spec Text.Proofs.
Ltac Zify.zify_post_hook ::= Z.div_mod_to_equations.
Local Open Scope N_scope.
Arguments N.add : simpl never. Arguments N.sub : simpl never. Arguments N.mul : simpl never.
Arguments N.div : simpl never. Arguments N.modulo : simpl never. Arguments N.pow : simpl never.
Arguments N.eqb : simpl never. Arguments N.ltb : simpl never. Arguments N.leb : simpl never.

(** [n] groups of [a] in base [base], most significant first *)
Fixpoint groups_of (n : nat) (base a : N) : list N :=
  match n with O => [] | S k => groups_of k base (a / base) ++ [a mod base] end.
Definition groups_value (base : N) (l : list N) : N := fold_left (fun acc g => acc * base + g) l 0.
Fixpoint parse_groups (radix max : N) (parts : list str) : option (list N) :=
  match parts with
  | [] => Some []
  | p :: r =>
    match parse_uint radix max p, parse_groups radix max r with
    | Some v, Some l => Some (v :: l)
    | _, _ => None
    end
  end.

Definition grouped_display (n : nat) (base radix sep a : N) : str :=
  join sep (map (to_digits radix) (groups_of n base a)).
Definition grouped_parse (n : nat) (base radix sep : N) (ok : str -> bool) (s : str) : option N :=
  if ok s then
    match parse_groups radix (base - 1) (split_all sep s) with
    | Some l => if Nat.eqb (length l) n then Some (groups_value base l) else None
    | None => None
    end
  else None.

Definition real_oracle : iporacle :=
  mkIp (grouped_parse 4 256 10 46 (forallb ip4ch))
       (grouped_parse 8 65536 16 c_colon (fun s => forallb ip6ch s && has_colon s))
       (grouped_display 4 256 10 46)
       (grouped_display 8 65536 16 c_colon).

Lemma groups_of_length n base a : length (groups_of n base a) = n.
Proof. revert a. induction n as [|n IH]; intros a; [reflexivity|]. cbn [groups_of]. rewrite app_length, IH. cbn. lia. Qed.

Lemma groups_of_lt n base a : 1 <= base -> Forall (fun g => g < base) (groups_of n base a).
Proof.
  intros Hb. revert a. induction n as [|n IH]; intros a; [constructor|]. cbn [groups_of].
  apply Forall_app. split; [apply IH|]. constructor; [apply N.mod_lt; lia|constructor].
Qed.

Lemma groups_value_of n base a : 2 <= base -> a < base ^ N.of_nat n -> groups_value base (groups_of n base a) = a.
Proof.
  intros Hb. unfold groups_value. revert a. induction n as [|n IH]; intros a Ha.
  - change (base ^ N.of_nat 0) with 1 in Ha. cbn. lia.
  - cbn [groups_of]. rewrite fold_left_app. cbn [fold_left]. rewrite IH.
    + pose proof (N.div_mod' a base). lia.
    + rewrite Nat2N.inj_succ, N.pow_succ_r' in Ha. apply N.div_lt_upper_bound; [lia|]. lia.
Qed.

Lemma parse_groups_to_digits radix max vs : 2 <= radix -> radix <= 16 -> Forall (fun v => v <= max) vs ->
  parse_groups radix max (map (to_digits radix) vs) = Some vs.
Proof.
  intros H1 H2 Hf. induction Hf as [|v l Hv Hl IH]; [reflexivity|]. cbn [map parse_groups].
  rewrite parse_uint_to_digits by assumption. rewrite IH. reflexivity.
Qed.

Lemma join_cons2 c a b r : join c (a :: b :: r) = a ++ c :: join c (b :: r).
Proof. reflexivity. Qed.

Lemma split_all_join c gs : gs <> [] -> Forall (fun g => ~ In c g) gs -> split_all c (join c gs) = gs.
Proof.
  intros Hne Hf. induction Hf as [|a l Ha Hl IH]; [congruence|].
  destruct l as [|b r].
  - apply split_all_none, Ha.
  - rewrite join_cons2, split_all_app by exact Ha. f_equal. apply IH. discriminate.
Qed.

Lemma forallb_join (p : N -> bool) c gs : p c = true -> Forall (fun g => forallb p g = true) gs ->
  forallb p (join c gs) = true.
Proof.
  intros Hc Hf. induction Hf as [|a l Ha Hl IH]; [reflexivity|]. destruct l as [|b r]; [exact Ha|].
  assert (H : forallb p (c :: join c (b :: r)) = true).
  { change (forallb p (c :: join c (b :: r))) with (p c && forallb p (join c (b :: r))). rewrite Hc. exact IH. }
  rewrite join_cons2, forallb_app. apply andb_true_iff. split; [exact Ha|exact H].
Qed.

Lemma has_sep_join c a b r : existsb (N.eqb c) (join c (a :: b :: r)) = true.
Proof. rewrite join_cons2, existsb_app. cbn [existsb]. rewrite N.eqb_refl, orb_true_r. reflexivity. Qed.

Section Grouped.
Context (n : nat) (base radix sep : N) (ok : str -> bool).
Hypothesis Hn : n <> 0%nat.
Hypothesis Hbase : 2 <= base.
Hypothesis Hr1 : 2 <= radix.
Hypothesis Hr2 : radix <= 16.
Hypothesis Hsep : lhexb sep = false.
Hypothesis Hok : forall a, ok (grouped_display n base radix sep a) = true.

Lemma grouped_rt a : a < base ^ N.of_nat n ->
  grouped_parse n base radix sep ok (grouped_display n base radix sep a) = Some a.
Proof.
  intros Ha. unfold grouped_parse. rewrite Hok. unfold grouped_display.
  rewrite split_all_join.
  - rewrite parse_groups_to_digits; [|assumption|assumption|].
    + rewrite groups_of_length, Nat.eqb_refl. f_equal. apply groups_value_of; assumption.
    + pose proof (groups_of_lt n base a ltac:(lia)) as Hf. eapply Forall_impl; [|exact Hf]. cbn. intros. lia.
  - destruct n; [congruence|]. cbn [groups_of]. intros E. apply map_eq_nil in E. apply app_eq_nil in E. destruct E; discriminate.
  - apply Forall_forall. intros g Hg. apply in_map_iff in Hg. destruct Hg as (v & <- & _).
    eapply forallb_notin; [apply (to_digits_lhex radix v Hr1 Hr2)|exact Hsep].
Qed.
End Grouped.

Lemma real_oracle_std_like : std_like real_oracle.
Proof.
  unfold std_like, real_oracle. cbn [ip4_parse ip6_parse ip4_display ip6_display].
  split; [|split; [|split]].
  - intros a Ha. apply grouped_rt; try lia; try reflexivity.
    intros x. unfold grouped_display. apply forallb_join; [reflexivity|].
    apply Forall_forall. intros g Hg. apply in_map_iff in Hg. destruct Hg as (v & <- & _).
    pose proof (to_digits_dec v) as H. apply forallb_forall. intros c Hc. rewrite forallb_forall in H.
    specialize (H c Hc). unfold decb in H. unfold ip4ch. rewrite H. reflexivity.
  - intros a Ha. apply grouped_rt; try lia; try reflexivity.
    intros x. apply andb_true_iff. split.
    + unfold grouped_display. apply forallb_join; [reflexivity|].
      apply Forall_forall. intros g Hg. apply in_map_iff in Hg. destruct Hg as (v & <- & _).
      pose proof (to_digits_lhex 16 v ltac:(lia) ltac:(lia)) as H. apply forallb_forall. intros c Hc.
      rewrite forallb_forall in H. specialize (H c Hc). unfold lhexb in H. unfold ip6ch, c_colon. lia.
    + unfold has_colon, grouped_display.
      pose proof (groups_of_length 8 65536 x) as Hlen. rewrite <- (map_length (to_digits 16)) in Hlen.
      destruct (map (to_digits 16) (groups_of 8 65536 x)) as [|g1 [|g2 r]]; try discriminate Hlen. apply has_sep_join.
  - intros s a. unfold grouped_parse. destruct (forallb ip4ch s); [reflexivity|discriminate].
  - intros s a. unfold grouped_parse. destruct (forallb ip6ch s && has_colon s) eqn:E; [|discriminate].
    intros _. apply andb_true_iff in E. exact E.
Qed.
