(** Lemmas for the TXT record parser (C15, last sentence).  Part E: UTF-8 structure is kept by
    trimming and by slicing at ASCII delimiters; no panic.  Part F: canonical record round
    trip.  Part G: exactness. *)
From Coq Require Import Lia ZifyBool ZifyNat ZifyN.
From Sci Require Import Text.Model Text.Spec Text.Proofs.
Ltac Zify.zify_post_hook ::= Z.div_mod_to_equations.
Local Open Scope N_scope.
Arguments N.add : simpl never. Arguments N.sub : simpl never. Arguments N.mul : simpl never.
Arguments N.div : simpl never. Arguments N.modulo : simpl never. Arguments N.pow : simpl never.
Arguments N.eqb : simpl never. Arguments N.ltb : simpl never. Arguments N.leb : simpl never.

(** * Part E *)
Definition noncont (b : N) : bool := (b <? 128) || (192 <=? b).
Definition bnd (z : str) : bool := match z with [] => true | b :: _ => noncont b end.

Lemma utf8_ok_cons b r : utf8_ok (b :: r) =
    if b <? 128 then utf8_ok r
    else if (194 <=? b) && (b <? 224) then
      match r with c1 :: r1 => is_cont c1 && utf8_ok r1 | _ => false end
    else if (224 <=? b) && (b <? 240) then
      match r with c1 :: c2 :: r2 => is_cont c1 && is_cont c2 && utf8_ok r2 | _ => false end
    else if (240 <=? b) && (b <? 245) then
      match r with c1 :: c2 :: c3 :: r3 => is_cont c1 && is_cont c2 && is_cont c3 && utf8_ok r3 | _ => false end
    else false.
Proof. reflexivity. Qed.

Lemma utf8_ok_bnd s : utf8_ok s = true -> bnd s = true.
Proof.
  destruct s as [|b r]; [reflexivity|]. rewrite utf8_ok_cons. unfold bnd, noncont.
  repeat match goal with |- context [if ?x then _ else _] => destruct x eqn:? end; try discriminate; lia.
Qed.

(** splitting a well-formed string in front of a non-continuation byte *)
Lemma utf8_split_n n : forall x b y, (length x <= n)%nat ->
  utf8_ok (x ++ b :: y) = true -> is_cont b = false -> utf8_ok x = true /\ utf8_ok (b :: y) = true.
Proof.
  induction n as [|n IH]; intros x b y Hl H Hb.
  - destruct x; [|cbn in Hl; lia]. split; [reflexivity|exact H].
  - destruct x as [|a x]; [split; [reflexivity|exact H]|].
    cbn [app] in H. rewrite utf8_ok_cons in H. rewrite utf8_ok_cons. cbn [length] in Hl.
    destruct (a <? 128). { apply IH; [lia|exact H|exact Hb]. }
    destruct ((194 <=? a) && (a <? 224)).
    { destruct x as [|c1 x]; cbn [app] in H.
      - exfalso; repeat match type of H with context [match ?l with [] => _ | _ :: _ => _ end] => destruct l end; try discriminate H; unfold is_cont in *; lia.
      - apply andb_true_iff in H. destruct H as [H1 H]. rewrite H1. cbn [andb]. cbn [length] in Hl. apply IH; [lia|exact H|exact Hb]. }
    destruct ((224 <=? a) && (a <? 240)).
    { destruct x as [|c1 [|c2 x]]; cbn [app] in H.
      - exfalso; repeat match type of H with context [match ?l with [] => _ | _ :: _ => _ end] => destruct l end; try discriminate H; unfold is_cont in *; lia.
      - exfalso; repeat match type of H with context [match ?l with [] => _ | _ :: _ => _ end] => destruct l end; try discriminate H; unfold is_cont in *; lia.
      - apply andb_true_iff in H. destruct H as [H1 H]. rewrite H1. cbn [andb]. cbn [length] in Hl. apply IH; [lia|exact H|exact Hb]. }
    destruct ((240 <=? a) && (a <? 245)); [|discriminate].
    destruct x as [|c1 [|c2 [|c3 x]]]; cbn [app] in H.
    + exfalso; repeat match type of H with context [match ?l with [] => _ | _ :: _ => _ end] => destruct l end; try discriminate H; unfold is_cont in *; lia.
    + exfalso; repeat match type of H with context [match ?l with [] => _ | _ :: _ => _ end] => destruct l end; try discriminate H; unfold is_cont in *; lia.
    + exfalso; repeat match type of H with context [match ?l with [] => _ | _ :: _ => _ end] => destruct l end; try discriminate H; unfold is_cont in *; lia.
    + apply andb_true_iff in H. destruct H as [H1 H]. rewrite H1. cbn [andb]. cbn [length] in Hl. apply IH; [lia|exact H|exact Hb].
Qed.
Lemma utf8_split x b y : utf8_ok (x ++ b :: y) = true -> is_cont b = false ->
  utf8_ok x = true /\ utf8_ok (b :: y) = true.
Proof. apply (utf8_split_n (length x)). lia. Qed.

Lemma utf8_tail a s : utf8_ok (a :: s) = true -> a <? 128 = true -> utf8_ok s = true.
Proof. rewrite utf8_ok_cons. intros H Ha. rewrite Ha in H. exact H. Qed.

(** ** trimming *)
Lemma ws1_ascii b : ws1 b = true -> b <? 128 = true.
Proof. unfold ws1. lia. Qed.

Lemma trim_start_props_n n : forall s, (length s <= n)%nat ->
  (utf8_ok s = true -> utf8_ok (trim_start s) = true) /\ (length (trim_start s) <= length s)%nat.
Proof.
  induction n as [|n IH]; intros s Hl.
  - destruct s; [split; [auto|cbn; lia]|cbn in Hl; lia].
  - destruct s as [|b r]; [split; [auto|cbn; lia]|]. cbn [length] in Hl. cbn [trim_start].
    destruct (ws1 b) eqn:W1.
    { destruct (IH r ltac:(lia)) as [I1 I2]. split; [|cbn [length]; lia].
      intros H. apply I1. eapply utf8_tail; [exact H|apply ws1_ascii, W1]. }
    destruct r as [|c r1]; [split; [auto|lia]|].
    destruct (ws2 b c) eqn:W2.
    { cbn [length] in Hl. destruct (IH r1 ltac:(lia)) as [I1 I2]. split; [|cbn [length]; lia].
      intros H. apply I1. rewrite utf8_ok_cons in H. unfold ws2 in W2.
      replace (b <? 128) with false in H by lia. replace ((194 <=? b) && (b <? 224)) with true in H by lia.
      apply andb_true_iff in H. apply H. }
    destruct r1 as [|d r2]; [split; [auto|lia]|].
    destruct (ws3 b c d) eqn:W3; [|split; [auto|lia]].
    cbn [length] in Hl. destruct (IH r2 ltac:(lia)) as [I1 I2]. split; [|cbn [length]; lia].
    intros H. apply I1. rewrite utf8_ok_cons in H. unfold ws3 in W3.
    replace (b <? 128) with false in H by lia. replace ((194 <=? b) && (b <? 224)) with false in H by lia.
    replace ((224 <=? b) && (b <? 240)) with true in H by lia.
    apply andb_true_iff in H. apply H.
Qed.
Lemma utf8_trim_start s : utf8_ok s = true -> utf8_ok (trim_start s) = true.
Proof. apply (trim_start_props_n (length s)). lia. Qed.
Lemma length_trim_start s : (length (trim_start s) <= length s)%nat.
Proof. apply (trim_start_props_n (length s)). lia. Qed.

Lemma trim_end_props_n n : forall r, (length r <= n)%nat ->
  (utf8_ok (rev r) = true -> utf8_ok (rev (trim_end_rev r)) = true) /\
  (length (trim_end_rev r) <= length r)%nat.
Proof.
  induction n as [|n IH]; intros r Hl.
  - destruct r; [split; [auto|cbn; lia]|cbn in Hl; lia].
  - destruct r as [|b t]; [split; [auto|cbn; lia]|]. cbn [length] in Hl. cbn [trim_end_rev].
    destruct (ws1 b) eqn:W1.
    { destruct (IH t ltac:(lia)) as [I1 I2]. split; [|cbn [length]; lia].
      intros H. apply I1. cbn [rev] in H. apply utf8_split in H; [apply H|].
      apply ws1_ascii in W1. unfold is_cont. lia. }
    destruct t as [|c t1]; [split; [auto|lia]|].
    destruct (ws2 c b) eqn:W2.
    { cbn [length] in Hl. destruct (IH t1 ltac:(lia)) as [I1 I2]. split; [|cbn [length]; lia].
      intros H. apply I1. cbn [rev] in H. rewrite <- app_assoc in H. cbn [app] in H.
      apply utf8_split in H; [apply H|]. unfold ws2 in W2. unfold is_cont. lia. }
    destruct t1 as [|d t2]; [split; [auto|lia]|].
    destruct (ws3 d c b) eqn:W3; [|split; [auto|lia]].
    cbn [length] in Hl. destruct (IH t2 ltac:(lia)) as [I1 I2]. split; [|cbn [length]; lia].
    intros H. apply I1. cbn [rev] in H. rewrite <- !app_assoc in H. cbn [app] in H.
    apply utf8_split in H; [apply H|]. unfold ws3 in W3. unfold is_cont. lia.
Qed.

Lemma utf8_trim s : utf8_ok s = true -> utf8_ok (trim s) = true.
Proof.
  intros H. unfold trim. apply (trim_end_props_n (length (rev (trim_start s)))); [lia|].
  rewrite rev_involutive. apply utf8_trim_start, H.
Qed.
Lemma length_trim s : (length (trim s) <= length s)%nat.
Proof.
  unfold trim. rewrite rev_length.
  pose proof (proj2 (trim_end_props_n _ (rev (trim_start s)) (le_n _))) as H1.
  rewrite rev_length in H1. pose proof (length_trim_start s). lia.
Qed.

(** ** slicing *)
Lemma nth_error_app_len {A} (x z : list A) : nth_error (x ++ z) (length x) = nth_error z 0.
Proof. induction x; [reflexivity|exact IHx]. Qed.

Lemma is_char_boundary_app x z : bnd z = true -> is_char_boundary (x ++ z) (len x) = true.
Proof.
  intros H. unfold is_char_boundary. replace (N.to_nat (len x)) with (length x) by (unfold len; lia). rewrite nth_error_app_len.
  destruct z as [|b z']; cbn [nth_error].
  - rewrite app_nil_r, N.eqb_refl, orb_true_r. reflexivity.
  - cbn [bnd] in H. unfold noncont in H. rewrite H, !orb_true_r. reflexivity.
Qed.

Lemma str_slice_mid {E} x m y : bnd (m ++ y) = true -> bnd y = true ->
  @str_slice E (x ++ m ++ y) (len x) (len x + len m) = Ok m.
Proof.
  intros H1 H2. unfold str_slice.
  rewrite is_char_boundary_app by exact H1.
  replace (len x + len m) with (len (x ++ m)) by apply len_app.
  rewrite app_assoc. rewrite is_char_boundary_app by exact H2.
  rewrite !len_app. replace ((len x <=? len x + len m) && (len x + len m <=? len x + len m + len y)) with true by lia.
  cbn [andb]. f_equal. replace (N.to_nat (len x + len m - len x)) with (length m) by (unfold len; lia).
  replace (N.to_nat (len x)) with (length x) by (unfold len; lia). rewrite <- app_assoc, skipn_app, skipn_all, Nat.sub_diag. cbn [skipn app].
  rewrite firstn_app, Nat.sub_diag, firstn_all. cbn [firstn]. apply app_nil_r.
Qed.

Lemma find_idx_some c s i : find_idx c s = Some i ->
  exists x y, s = x ++ c :: y /\ ~ In c x /\ i = len x.
Proof.
  revert i. induction s as [|b r IH]; intros i H; [discriminate|]. cbn [find_idx] in H.
  destruct (b =? c) eqn:E.
  - apply N.eqb_eq in E. subst b. injection H as <-. exists [], r. split; [reflexivity|]. split; [intros []|reflexivity].
  - destruct (find_idx c r) as [j|]; [|discriminate]. injection H as <-.
    destruct (IH j eq_refl) as (x & y & -> & Hn & ->). exists (b :: x), y. split; [reflexivity|]. split.
    + intros [->|Hi]; [rewrite N.eqb_refl in E; discriminate|exact (Hn Hi)].
    + unfold len. cbn [length]. lia.
Qed.

(** ** the loop never panics *)
Lemma is_empty_false {A} (s : list A) : is_empty s = false -> s <> [].
Proof. destruct s; [discriminate|discriminate]. Qed.

Lemma txt_loop_nopanic fixed O : forall fuel remaining acc,
  utf8_ok remaining = true -> (length remaining < fuel)%nat ->
  is_panic (txt_loop fuel fixed O remaining acc) = false.
Proof.
  induction fuel as [|f IH]; intros remaining acc Hu Hl; [lia|].
  cbn [txt_loop]. destruct (is_empty remaining) eqn:E0; [reflexivity|].
  destruct (starts_with c_lbr remaining) eqn:Es; [|reflexivity]. cbn [negb].
  destruct remaining as [|b0 t]; [discriminate|]. cbn [starts_with] in Es. apply N.eqb_eq in Es. subst b0.
  destruct (find_idx c_rbr (c_lbr :: t)) as [i|] eqn:Ef; [|reflexivity].
  apply find_idx_some in Ef. destruct Ef as (x & y & Ex & Nx & ->).
  destruct x as [|x0 x']; [discriminate|]. injection Ex as <- ->.
  (* pieces are well formed *)
  assert (Hsp : utf8_ok (c_lbr :: x') = true /\ utf8_ok (c_rbr :: y) = true).
  { apply (utf8_split (c_lbr :: x') c_rbr y); [exact Hu|reflexivity]. }
  destruct Hsp as [Hx Hy].
  assert (Hx' : utf8_ok x' = true) by (eapply utf8_tail; [exact Hx|reflexivity]).
  assert (Hy' : utf8_ok y = true) by (eapply utf8_tail; [exact Hy|reflexivity]).
  (* entry slice *)
  assert (S1 : @str_slice perr (c_lbr :: x' ++ c_rbr :: y) 1 (len (c_lbr :: x')) = Ok x').
  { pose proof (@str_slice_mid perr [c_lbr] x' (c_rbr :: y)) as Hm.
    change (len [c_lbr]) with 1 in Hm. replace (len (c_lbr :: x')) with (1 + len x') by (unfold len; cbn [length]; lia).
    apply Hm; [|reflexivity]. destruct x' as [|b x'']; [reflexivity|]. apply (utf8_ok_bnd _ Hx'). }
  change ((c_lbr :: x') ++ c_rbr :: y) with (c_lbr :: x' ++ c_rbr :: y). rewrite S1. cbn [obind].
  (* rest slice *)
  assert (S2 : @str_slice perr (c_lbr :: x' ++ c_rbr :: y) (len (c_lbr :: x') + 1) (len (c_lbr :: x' ++ c_rbr :: y)) = Ok y).
  { pose proof (@str_slice_mid perr ((c_lbr :: x') ++ [c_rbr]) y []) as Hm.
    rewrite app_nil_r in Hm. rewrite len_app in Hm. change (len [c_rbr]) with 1 in Hm.
    rewrite <- app_assoc in Hm. cbn [app] in Hm.
    replace (len (c_lbr :: x' ++ c_rbr :: y)) with (len (c_lbr :: x') + 1 + len y).
    - apply Hm; [apply (utf8_ok_bnd _ Hy')|reflexivity].
    - unfold len. cbn [length]. rewrite app_length. cbn [length]. lia. }
  rewrite S2. cbn [obind].
  destruct (split_once c_comma (trim x')) as [[a h]|]; [|reflexivity].
  pose proof (parse_ia_nopanic (trim a)) as Hia. destruct (parse_ia (trim a)) as [ia| |]; try discriminate; [|reflexivity].
  destruct (ip_from_str O (trim h)) as [hh|]; [|reflexivity].
  destruct (is_empty (trim y)) eqn:E1; [reflexivity|].
  destruct (starts_with c_comma (trim y)) eqn:Ec; [|reflexivity]. cbn [negb].
  pose proof (utf8_trim y Hy') as Hty. pose proof (length_trim y) as Lty.
  destruct (trim y) as [|c0 r1] eqn:Ety; [discriminate|]. cbn [starts_with] in Ec. apply N.eqb_eq in Ec. subst c0.
  assert (Hr1 : utf8_ok r1 = true) by (eapply utf8_tail; [exact Hty|reflexivity]).
  assert (S3 : @str_slice perr (c_comma :: r1) 1 (len (c_comma :: r1)) = Ok r1).
  { pose proof (@str_slice_mid perr [c_comma] r1 []) as Hm. rewrite app_nil_r in Hm.
    change (len [c_comma]) with 1 in Hm. replace (len (c_comma :: r1)) with (1 + len r1) by (unfold len; cbn [length]; lia).
    apply Hm; [apply (utf8_ok_bnd _ Hr1)|reflexivity]. }
  rewrite S3. cbn [obind].
  destruct (fixed && is_empty (trim r1)); [reflexivity|].
  apply IH; [apply utf8_trim, Hr1|].
  pose proof (length_trim r1). cbn [length] in *. rewrite app_length in Hl. cbn [length] in Hl. lia.
Qed.

Lemma strip_prefix_utf8 p s t : forallb (fun b => b <? 128) p = true ->
  strip_prefix p s = Some t -> utf8_ok s = true -> utf8_ok t = true.
Proof.
  revert s. induction p as [|a p IH]; intros s Hp H Hu; [injection H as <-; exact Hu|].
  destruct s as [|b s]; [discriminate|]. cbn [strip_prefix] in H. destruct (a =? b) eqn:E; [|discriminate].
  apply N.eqb_eq in E. subst b. cbn [forallb] in Hp. apply andb_true_iff in Hp. destruct Hp as [Ha Hp].
  apply (IH s Hp H). eapply utf8_tail; eauto.
Qed.

Lemma parse_txt_record_nopanic fixed O s : utf8_ok s = true -> is_panic (parse_txt_record_gen fixed O s) = false.
Proof.
  intros Hu. unfold parse_txt_record_gen. destruct (strip_prefix SCION_TXT_PREFIX s) as [p|] eqn:E; [|reflexivity].
  pose proof (strip_prefix_utf8 SCION_TXT_PREFIX _ _ eq_refl E Hu) as Hp. unfold parse_txt_payload_gen.
  destruct (is_empty (trim p)); [reflexivity|]. apply txt_loop_nopanic; [apply utf8_trim, Hp|lia].
Qed.

Lemma parse_kind_nopanic O k s : utf8_ok s = true -> is_panic (parse_kind O k s) = false.
Proof.
  intros Hu. destruct (N.eq_dec k K_TXT) as [->|Hk]; [|apply parse_kind_nopanic_notxt; assumption].
  change (parse_kind O K_TXT s) with (omap VList (parse_txt_record_gen true O s)).
  rewrite is_panic_omap. apply parse_txt_record_nopanic, Hu.
Qed.

(** * Part F: the canonical record parses back *)
Definition nowsb (c : N) : bool := (c <? 128) && negb (ws1 c).

Lemma trim_start_nows b r : nowsb b = true -> trim_start (b :: r) = b :: r.
Proof.
  unfold nowsb. intros H. apply andb_true_iff in H. destruct H as [H1 H2]. apply negb_true_iff in H2.
  cbn [trim_start]. rewrite H2. destruct r as [|c r1]; [reflexivity|].
  replace (ws2 b c) with false by (unfold ws2; lia). destruct r1 as [|d r2]; [reflexivity|].
  replace (ws3 b c d) with false by (unfold ws3; lia). reflexivity.
Qed.
Lemma trim_end_rev_nows b t : nowsb b = true -> trim_end_rev (b :: t) = b :: t.
Proof.
  unfold nowsb. intros H. apply andb_true_iff in H. destruct H as [H1 H2]. apply negb_true_iff in H2.
  cbn [trim_end_rev]. rewrite H2. destruct t as [|c t1]; [reflexivity|].
  replace (ws2 c b) with false by (unfold ws2; lia). destruct t1 as [|d t2]; [reflexivity|].
  replace (ws3 d c b) with false by (unfold ws3; lia). reflexivity.
Qed.
Lemma trim_nows s : forallb nowsb s = true -> trim s = s.
Proof.
  intros H. unfold trim.
  assert (E1 : trim_start s = s).
  { destruct s as [|b r]; [reflexivity|]. cbn [forallb] in H. apply andb_true_iff in H. apply trim_start_nows, H. }
  rewrite E1. assert (Hr : forallb nowsb (rev s) = true).
  { apply forallb_forall. intros c Hc. apply in_rev in Hc. rewrite forallb_forall in H. apply H, Hc. }
  destruct (rev s) as [|b t] eqn:E; [apply (f_equal (@rev N)) in E; rewrite rev_involutive in E; exact (eq_sym E)|].
  cbn [forallb] in Hr. apply andb_true_iff in Hr. rewrite trim_end_rev_nows by apply Hr.
  rewrite <- E. apply rev_involutive.
Qed.

Lemma strip_prefix_app p t : strip_prefix p (p ++ t) = Some t.
Proof. induction p as [|a p IH]; [reflexivity|]. cbn [app strip_prefix]. rewrite N.eqb_refl. exact IH. Qed.

Lemma find_idx_app c x y : ~ In c x -> find_idx c (x ++ c :: y) = Some (len x).
Proof.
  induction x as [|b x IH]; intros Hn; cbn [app find_idx].
  - rewrite N.eqb_refl. reflexivity.
  - replace (b =? c) with false by (symmetry; apply N.eqb_neq; intros ->; apply Hn; left; reflexivity).
    rewrite IH by (intros H; apply Hn; right; exact H). f_equal. unfold len. cbn [length]. lia.
Qed.

Definition addrch (c : N) : bool := iach c || ip6ch c || (c =? c_comma).
Lemma addrch_nows c : addrch c = true -> nowsb c = true.
Proof. unfold addrch, iach, asnch, lhexb, ip6ch, nowsb, ws1, c_colon, c_dash, c_comma. lia. Qed.
Lemma ip4ch_ip6ch c : ip4ch c = true -> ip6ch c = true.
Proof. unfold ip4ch, ip6ch. lia. Qed.

Section TxtRt.
Context (O : iporacle).
Hypothesis RT4 : forall a, a < 2 ^ 32 -> ip4_parse O (ip4_display O a) = Some a.
Hypothesis RT6 : forall a, a < 2 ^ 128 -> ip6_parse O (ip6_display O a) = Some a.
Hypothesis CH4 : forall s a, ip4_parse O s = Some a -> forallb ip4ch s = true.
Hypothesis CH6 : forall s a, ip6_parse O s = Some a -> forallb ip6ch s = true /\ has_colon s = true.

Definition is_ip (h : host) : bool := match h with HS _ => false | _ => true end.

Lemma display_ip_chars h : host_wf h = true -> is_ip h = true -> forallb ip6ch (display_host O h) = true.
Proof.
  intros Hw Hi. destruct h as [a|a|s]; cbn [display_host host_wf] in *; [| |discriminate].
  - pose proof (CH4 _ _ (RT4 a ltac:(lia))) as H. apply forallb_forall. intros c Hc.
    rewrite forallb_forall in H. apply ip4ch_ip6ch, H, Hc.
  - apply (CH6 _ _ (RT6 a ltac:(lia))).
Qed.

Lemma ip_from_str_display h : host_wf h = true -> is_ip h = true -> ip_from_str O (display_host O h) = Some h.
Proof.
  intros Hw Hi. unfold ip_from_str. destruct h as [a|a|s]; cbn [display_host host_wf] in *; [| |discriminate].
  - rewrite RT4 by lia. reflexivity.
  - pose proof (RT6 a ltac:(lia)) as H6. rewrite (ip_disjoint O CH4 CH6 _ _ H6), H6. reflexivity.
Qed.

Lemma display_scion_addr_chars ia h : host_wf h = true -> is_ip h = true ->
  forallb addrch (display_scion_addr O ia h) = true.
Proof.
  intros Hw Hi. unfold display_scion_addr. rewrite !forallb_app. cbn [forallb].
  assert (H1 : forallb addrch (display_ia ia) = true).
  { pose proof (display_ia_chars ia) as H. apply forallb_forall. intros c Hc. rewrite forallb_forall in H.
    unfold addrch. rewrite (H c Hc). reflexivity. }
  assert (H2 : forallb addrch (display_host O h) = true).
  { pose proof (display_ip_chars h Hw Hi) as H. apply forallb_forall. intros c Hc. rewrite forallb_forall in H.
    unfold addrch. rewrite (H c Hc). rewrite orb_true_r. reflexivity. }
  rewrite H1, H2. reflexivity.
Qed.

Definition entry_ok (p : N * host) : bool := (fst p <? 2 ^ 64) && host_wf (snd p) && is_ip (snd p).

Lemma display_txt_entries_cons ia h r :
  display_txt_entries O ((ia, h) :: r) =
  c_lbr :: display_scion_addr O ia h ++ c_rbr :: match r with [] => [] | _ => c_comma :: display_txt_entries O r end.
Proof. destruct r as [|[ia' h'] r']; cbn [display_txt_entries app]; rewrite <- ?app_assoc; reflexivity. Qed.

Lemma display_txt_entries_nows l : forallb entry_ok l = true -> forallb nowsb (display_txt_entries O l) = true.
Proof.
  induction l as [|[ia h] r IH]; [reflexivity|]. intros H. cbn [forallb] in H. apply andb_true_iff in H. destruct H as [He Hr].
  unfold entry_ok in He. cbn [fst snd] in He. apply andb_true_iff in He. destruct He as [He Hi]. apply andb_true_iff in He. destruct He as [Hia Hw].
  rewrite display_txt_entries_cons. cbn [forallb]. rewrite forallb_app. cbn [forallb].
  assert (HA : forallb nowsb (display_scion_addr O ia h) = true).
  { pose proof (display_scion_addr_chars ia h Hw Hi) as H. apply forallb_forall. intros c Hc.
    rewrite forallb_forall in H. apply addrch_nows, H, Hc. }
  rewrite HA. change (nowsb c_lbr) with true. change (nowsb c_rbr) with true. cbn [andb].
  destruct r; [reflexivity|]. cbn [forallb]. change (nowsb c_comma) with true. cbn [andb]. apply IH, Hr.
Qed.

Lemma txt_loop_display : forall l fuel acc, l <> [] -> forallb entry_ok l = true ->
  (length (display_txt_entries O l) < fuel)%nat ->
  txt_loop fuel true O (display_txt_entries O l) acc = Ok (rev acc ++ l).
Proof.
  induction l as [|[ia h] r IH]; intros fuel acc Hne Hok Hl; [congruence|].
  pose proof Hok as Hok0. cbn [forallb] in Hok. apply andb_true_iff in Hok. destruct Hok as [He Hr].
  unfold entry_ok in He. cbn [fst snd] in He. apply andb_true_iff in He. destruct He as [He Hi]. apply andb_true_iff in He. destruct He as [Hia Hw].
  destruct fuel as [|f]; [lia|]. rewrite display_txt_entries_cons in *. cbn [txt_loop is_empty starts_with].
  rewrite N.eqb_refl. cbn [negb].
  set (A := display_scion_addr O ia h) in *.
  set (tail := match r with [] => [] | _ :: _ => c_comma :: display_txt_entries O r end) in *.
  pose proof (display_scion_addr_chars ia h Hw Hi) as HA.
  assert (HAn : forallb nowsb A = true).
  { apply forallb_forall. intros c Hc. rewrite forallb_forall in HA. apply addrch_nows, HA, Hc. }
  assert (Htail : forallb nowsb tail = true).
  { unfold tail. destruct r as [|e r']; [reflexivity|]. cbn [forallb]. change (nowsb c_comma) with true. cbn [andb].
    apply display_txt_entries_nows, Hr. }
  change (c_lbr :: A ++ c_rbr :: tail) with ((c_lbr :: A) ++ c_rbr :: tail).
  rewrite find_idx_app.
  2:{ intros [E|Hin]; [discriminate|]. rewrite forallb_forall in HA. specialize (HA _ Hin). vm_compute in HA. discriminate HA. }
  (* slices *)
  assert (bnd_nows : forall z, forallb nowsb z = true -> bnd z = true).
  { intros [|b z] Hz; [reflexivity|]. cbn [forallb] in Hz. apply andb_true_iff in Hz. destruct Hz as [Hz _].
    unfold nowsb in Hz. unfold bnd, noncont. lia. }
  assert (S1 : @str_slice perr ((c_lbr :: A) ++ c_rbr :: tail) 1 (len (c_lbr :: A)) = Ok A).
  { pose proof (@str_slice_mid perr [c_lbr] A (c_rbr :: tail)) as Hm.
    change (len [c_lbr]) with 1 in Hm. replace (len (c_lbr :: A)) with (1 + len A) by (unfold len; cbn [length]; lia).
    apply Hm; [|reflexivity]. apply bnd_nows. rewrite forallb_app. rewrite HAn. cbn [forallb]. rewrite Htail. reflexivity. }
  rewrite S1. cbn [obind].
  assert (S2 : @str_slice perr ((c_lbr :: A) ++ c_rbr :: tail) (len (c_lbr :: A) + 1) (len ((c_lbr :: A) ++ c_rbr :: tail)) = Ok tail).
  { pose proof (@str_slice_mid perr ((c_lbr :: A) ++ [c_rbr]) tail []) as Hm.
    rewrite app_nil_r in Hm. rewrite len_app in Hm. change (len [c_rbr]) with 1 in Hm.
    rewrite <- app_assoc in Hm. cbn [app] in Hm. cbn [app].
    replace (len (c_lbr :: A ++ c_rbr :: tail)) with (len (c_lbr :: A) + 1 + len tail).
    - apply Hm; [apply bnd_nows, Htail|reflexivity].
    - unfold len. cbn [length]. rewrite app_length. cbn [length]. lia. }
  rewrite S2. cbn [obind].
  rewrite (trim_nows A HAn). unfold A at 1. unfold display_scion_addr. cbn [app].
  rewrite split_once_app by (eapply forallb_notin; [apply display_ia_chars|reflexivity]).
  rewrite trim_nows.
  2:{ pose proof (display_ia_chars ia) as H. apply forallb_forall. intros c Hc. rewrite forallb_forall in H.
      apply addrch_nows. unfold addrch. rewrite (H c Hc). reflexivity. }
  rewrite parse_ia_display by lia.
  rewrite trim_nows.
  2:{ pose proof (display_ip_chars h Hw Hi) as H. apply forallb_forall. intros c Hc. rewrite forallb_forall in H.
      apply addrch_nows. unfold addrch. rewrite (H c Hc), orb_true_r. reflexivity. }
  rewrite ip_from_str_display by assumption.
  rewrite (trim_nows tail Htail).
  destruct r as [|e r'].
  - unfold tail. cbn [is_empty rev]. reflexivity.
  - unfold tail. cbn [is_empty starts_with]. rewrite N.eqb_refl. cbn [negb].
    set (R := display_txt_entries O (e :: r')) in *.
    assert (HR : forallb nowsb R = true) by (apply display_txt_entries_nows, Hr).
    assert (S3 : @str_slice perr (c_comma :: R) 1 (len (c_comma :: R)) = Ok R).
    { pose proof (@str_slice_mid perr [c_comma] R []) as Hm. rewrite app_nil_r in Hm.
      change (len [c_comma]) with 1 in Hm. replace (len (c_comma :: R)) with (1 + len R) by (unfold len; cbn [length]; lia).
      apply Hm; [apply bnd_nows, HR|reflexivity]. }
    rewrite S3. cbn [obind]. rewrite (trim_nows R HR).
    assert (HRne : is_empty R = false).
    { unfold R. destruct e as [ia' h']. rewrite display_txt_entries_cons. reflexivity. }
    rewrite HRne. cbn [andb].
    unfold R. rewrite IH; [cbn [rev]; rewrite <- app_assoc; reflexivity|discriminate|exact Hr|].
    fold R. unfold tail in Hl. cbn [length] in Hl. rewrite app_length in Hl. cbn [length] in Hl. fold R in Hl. lia.
Qed.

Lemma parse_txt_record_display l : l <> [] -> forallb entry_ok l = true ->
  parse_txt_record O (display_txt O l) = Ok l.
Proof.
  intros Hne Hok. unfold parse_txt_record, parse_txt_record_gen, display_txt. rewrite strip_prefix_app.
  unfold parse_txt_payload_gen. rewrite (trim_nows _ (display_txt_entries_nows l Hok)).
  destruct l as [|[ia h] r]; [congruence|].
  assert (E : is_empty (display_txt_entries O ((ia, h) :: r)) = false) by (rewrite display_txt_entries_cons; reflexivity).
  rewrite E. rewrite txt_loop_display; [reflexivity|discriminate|exact Hok|lia].
Qed.
End TxtRt.

(** * Part G: an accepted record normalises to a form of the list *)
Lemma str_slice_mid_val {E} x m y v :
  @str_slice E (x ++ m ++ y) (len x) (len x + len m) = Ok v -> v = m.
Proof.
  unfold str_slice. destruct (_ && _); [|discriminate]. intros [= <-].
  replace (N.to_nat (len x + len m - len x)) with (length m) by (unfold len; lia).
  replace (N.to_nat (len x)) with (length x) by (unfold len; lia).
  rewrite skipn_app, skipn_all, Nat.sub_diag. cbn [skipn app].
  rewrite firstn_app, Nat.sub_diag, firstn_all. cbn [firstn]. apply app_nil_r.
Qed.

Lemma ip_from_str_norm O s h : ip_from_str O s = Some h -> norm_host O s = display_host O h.
Proof.
  unfold ip_from_str, norm_host. destruct (ip4_parse O s) as [a|]; [intros [= <-]; reflexivity|].
  destruct (ip6_parse O s) as [a|]; [intros [= <-]; reflexivity|discriminate].
Qed.

Lemma txt_forms_single O ia h a : In a (addr_forms O ia h) ->
  In ([c_lbr] ++ a ++ [c_rbr]) (txt_forms O [(ia, h)]).
Proof.
  intros H. cbn [txt_forms]. apply in_flat_map. exists a. split; [exact H|]. cbn [map]. left.
  reflexivity.
Qed.
Lemma txt_forms_cons O ia h a l t : l <> [] -> In a (addr_forms O ia h) -> In t (txt_forms O l) ->
  In ([c_lbr] ++ a ++ [c_rbr] ++ c_comma :: t) (txt_forms O ((ia, h) :: l)).
Proof.
  intros Hl Ha Ht. cbn [txt_forms]. apply in_flat_map. exists a. split; [exact Ha|].
  destruct l as [|e l']; [congruence|].
  apply (in_map (fun t => [c_lbr] ++ a ++ [c_rbr] ++ [c_comma] ++ t)) in Ht. exact Ht.
Qed.

Lemma txt_loop_exact O : forall fuel fuel' remaining acc res,
  remaining <> [] -> (length remaining < fuel')%nat ->
  txt_loop fuel true O remaining acc = Ok res ->
  exists l, l <> [] /\ res = rev acc ++ l /\ In (norm_txt_entries fuel' O remaining) (txt_forms O l).
Proof.
  induction fuel as [|f IH]; intros fuel' remaining acc res Hne Hl H; [discriminate|].
  cbn [txt_loop] in H. destruct remaining as [|b0 t]; [congruence|]. cbn [is_empty] in H.
  destruct (starts_with c_lbr (b0 :: t)) eqn:Es; [|discriminate]. cbn [negb] in H.
  cbn [starts_with] in Es. apply N.eqb_eq in Es. subst b0.
  destruct (find_idx c_rbr (c_lbr :: t)) as [i|] eqn:Ef; [|discriminate].
  apply find_idx_some in Ef. destruct Ef as (x & y & Ex & Nx & ->).
  destruct x as [|x0 x']; [discriminate|]. injection Ex as <- ->.
  assert (Nx' : ~ In c_rbr x') by (intros Hi; apply Nx; right; exact Hi).
  change ((c_lbr :: x') ++ c_rbr :: y) with (c_lbr :: x' ++ c_rbr :: y) in H.
  (* entry slice *)
  destruct (str_slice (c_lbr :: x' ++ c_rbr :: y) 1 (len (c_lbr :: x'))) as [e0| |] eqn:S1; try discriminate.
  assert (e0 = x').
  { apply (@str_slice_mid_val perr [c_lbr] x' (c_rbr :: y)). change (len [c_lbr]) with 1.
    replace (1 + len x') with (len (c_lbr :: x')) by (unfold len; cbn [length]; lia). exact S1. }
  subst e0. cbn [obind] in H.
  destruct (str_slice (c_lbr :: x' ++ c_rbr :: y) (len (c_lbr :: x') + 1) (len (c_lbr :: x' ++ c_rbr :: y))) as [r0| |] eqn:S2; try discriminate.
  assert (r0 = y).
  { apply (@str_slice_mid_val perr ((c_lbr :: x') ++ [c_rbr]) y []). rewrite app_nil_r, len_app. change (len [c_rbr]) with 1.
    rewrite <- app_assoc. cbn [app].
    replace (len (c_lbr :: x') + 1 + len y) with (len (c_lbr :: x' ++ c_rbr :: y)); [exact S2|].
    unfold len. cbn [length]. rewrite app_length. cbn [length]. lia. }
  subst r0. cbn [obind] in H.
  destruct (split_once c_comma (trim x')) as [[a h]|] eqn:Esp; [|discriminate].
  destruct (parse_ia (trim a)) as [ia| |] eqn:Eia; try discriminate.
  destruct (ip_from_str O (trim h)) as [hh|] eqn:Eh; [|discriminate].
  (* the normaliser takes the same steps *)
  destruct fuel' as [|f']; [lia|]. cbn [norm_txt_entries]. rewrite N.eqb_refl.
  rewrite split_once_app by exact Nx'. rewrite Esp.
  pose proof (parse_ia_exact _ _ Eia) as Hia. rewrite (ip_from_str_norm _ _ _ Eh).
  assert (Ha : In (norm_ia (trim a) ++ [c_comma] ++ display_host O hh) (addr_forms O ia hh)).
  { unfold addr_forms. apply (in_map (fun i => i ++ [c_comma] ++ display_host O hh)). exact Hia. }
  destruct (trim y) as [|c0 r1] eqn:Ety.
  - cbn [is_empty] in H. injection H as <-. exists [(ia, hh)]. split; [discriminate|]. split; [reflexivity|].
    apply txt_forms_single in Ha. cbn [app] in *. exact Ha.
  - cbn [is_empty] in H. destruct (starts_with c_comma (c0 :: r1)) eqn:Ec; [|discriminate]. cbn [negb] in H.
    cbn [starts_with] in Ec. rewrite Ec. apply N.eqb_eq in Ec. subst c0.
    destruct (str_slice (c_comma :: r1) 1 (len (c_comma :: r1))) as [r1'| |] eqn:S3; try discriminate.
    assert (r1' = r1).
    { apply (@str_slice_mid_val perr [c_comma] r1 []). rewrite app_nil_r. change (len [c_comma]) with 1.
      replace (1 + len r1) with (len (c_comma :: r1)) by (unfold len; cbn [length]; lia). exact S3. }
    subst r1'. cbn [obind] in H.
    destruct (is_empty (trim r1)) eqn:E1; [discriminate|]. cbn [andb] in H.
    pose proof (length_trim y) as L1. pose proof (length_trim r1) as L2. rewrite Ety in L1.
    cbn [length] in Hl, L1. rewrite app_length in Hl. cbn [length] in Hl.
    destruct (IH f' (trim r1) ((ia, hh) :: acc) res (is_empty_false _ E1) ltac:(lia) H) as (l & Hlne & -> & Hin).
    exists ((ia, hh) :: l). split; [discriminate|]. split; [cbn [rev]; rewrite <- app_assoc; reflexivity|].
    pose proof (txt_forms_cons O ia hh _ l _ Hlne Ha Hin) as Hf. cbn [app] in *.
    rewrite <- app_assoc in Hf. cbn [app] in Hf. rewrite <- app_assoc. cbn [app]. exact Hf.
Qed.

Lemma parse_txt_record_exact O s l : parse_txt_record O s = Ok l ->
  In (norm_txt O s) (map (fun e => SCION_TXT_PREFIX ++ e) (txt_forms O l)).
Proof.
  unfold parse_txt_record, parse_txt_record_gen, norm_txt.
  destruct (strip_prefix SCION_TXT_PREFIX s) as [p|]; [|discriminate].
  unfold parse_txt_payload_gen. destruct (is_empty (trim p)) eqn:E; [discriminate|]. intros H.
  destruct (txt_loop_exact O _ (S (length p)) _ _ _ (is_empty_false _ E) ltac:(pose proof (length_trim p); lia) H)
    as (l' & _ & -> & Hin).
  cbn [rev app]. apply (in_map (fun e => SCION_TXT_PREFIX ++ e)). exact Hin.
Qed.

Lemma kind_parse_exact_all O k s v : std_like O ->
  parse_kind O k s = Ok v -> In (norm O k s) (forms O k v).
Proof.
  intros (RT4 & RT6 & CH4 & CH6). destruct (N.eq_dec k K_TXT) as [->|Hk].
  - change (parse_kind O K_TXT s) with (omap VList (parse_txt_record O s)).
    intros H. apply omap_ok in H. destruct H as (l & H & ->).
    change (norm O K_TXT s) with (norm_txt O s). cbn [forms]. apply parse_txt_record_exact, H.
  - intros H. apply kind_parse_exact; assumption.
Qed.

Lemma kind_display_parse_all O k v d : std_like O ->
  val_wf k v = true -> val_named k v = true -> display_kind O k v = Some d -> parse_kind O k d = Ok v.
Proof.
  intros (RT4 & RT6 & CH4 & CH6) Hw Hn Hd. destruct (N.eq_dec k K_TXT) as [->|Hk].
  2:{ eapply kind_display_parse; eauto. }
  destruct v as [n|h|ia h|ia h p|l]; cbn [display_kind] in Hd;
    unfold K_TXT, K_ISD, K_ASN, K_IA, K_SVC, K_HOST in Hd;
    try (repeat match type of Hd with context [if ?b then _ else _] =>
           let E := fresh "E" in destruct b eqn:E; [exfalso; lia|] end; discriminate Hd).
  fold K_TXT in Hd. change (K_TXT =? K_TXT) with true in Hd. cbn [andb] in Hd.
  destruct (negb (is_empty l) && forallb (fun p => match snd p with HS _ => false | _ => true end) l) eqn:E; [|discriminate].
  injection Hd as <-. apply andb_true_iff in E. destruct E as [E1 E2].
  change (parse_kind O K_TXT (display_txt O l)) with (omap VList (parse_txt_record O (display_txt O l))).
  rewrite (parse_txt_record_display O RT4 RT6 CH4 CH6); [reflexivity| |].
  - destruct l; [discriminate|discriminate].
  - cbn [val_wf] in Hw. apply forallb_forall. intros x Hx. rewrite forallb_forall in Hw, E2.
    specialize (Hw x Hx). specialize (E2 x Hx). unfold entry_ok, is_ip. destruct (snd x); try discriminate; rewrite Hw; reflexivity.
Qed.

(** * the shape of an accepted socket address, for every oracle: brackets around the address,
    then ':' and a colon-free port token -- nothing before '[' and nothing after the port *)
Lemma parse_socket_addr_shape O k e s r : parse_socket_addr O k e s = Ok r ->
  exists body port, s = [c_lbr] ++ body ++ [c_rbr; c_colon] ++ port /\ ~ In c_colon port /\
    (exists p, parse_uint 10 U16_MAX port = Some p /\ snd r = p) /\
    parse_scion_addr O k body = Ok (fst r).
Proof.
  unfold parse_socket_addr, parse_socket_addr_gen.
  destruct (rsplit_once c_colon s) as [[a port]|] eqn:Er; [|discriminate].
  apply rsplit_once_some in Er. destruct Er as (-> & Np).
  unfold bracket_reject. destruct (starts_with c_lbr a && ends_with c_rbr a) eqn:Eb; [|discriminate].
  cbn [negb]. destruct (brackets_inv a Eb) as (body & ->).
  destruct (len (c_lbr :: body ++ [c_rbr]) =? 0); [discriminate|].
  destruct (str_slice (c_lbr :: body ++ [c_rbr]) 1 (len (c_lbr :: body ++ [c_rbr]) - 1)) as [inner| |] eqn:Es;
    try discriminate.
  apply slice_brackets_val in Es. subst inner. cbn [obind].
  destruct (parse_scion_addr O k body) as [[ia' h']| |] eqn:Ea; try discriminate.
  destruct (parse_uint 10 U16_MAX port) as [p'|] eqn:Ep; [|discriminate]. intros [= <-].
  exists body, port. split; [cbn [app]; rewrite <- app_assoc; reflexivity|]. split; [exact Np|].
  split; [exists p'; split; [exact Ep|reflexivity]|exact Ea].
Qed.
