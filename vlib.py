"""Shared driver for the per-property checks (see DESIGN.md section 3 and 8).

A check = (1) regenerate Gen/*.v from /repo, (2) build the property's theorems with make,
(3) audit `Print Assumptions` + forbidden tokens, (4) build and run the Rust harness against
/repo's working tree, (5) evaluate the model and the property oracles on the harness' case
files inside Coq, (6) classify, write replay + evidence."""
import concurrent.futures, glob, hashlib, json, os, re, subprocess, sys, time

ROOT = os.path.dirname(os.path.abspath(__file__))
COQ = os.path.join(ROOT, "coq")
CACHE = os.path.join(ROOT, ".cache")
HARNESS = os.path.join(ROOT, "harness")
TARGET = os.path.join(CACHE, "target")
REPLAYS = os.path.join(ROOT, "replays")
COQFLAGS = ["-Q", os.path.join(COQ, "theories"), "Sci", "-w",
            "-notation-overridden,-deprecated-hint-without-locality,-deprecated-instance-without-locality"]

AXIOM_ALLOW = {
    # axioms declared by the standard library / std++ (named in the trusted base)
    "functional_extensionality_dep", "FunctionalExtensionality.functional_extensionality_dep",
    "proof_irrelevance", "ProofIrrelevance.proof_irrelevance", "Classical_Prop.classic", "classic",
    "Eqdep.Eq_rect_eq.eq_rect_eq", "eq_rect_eq", "JMeq.JMeq_eq", "JMeq_eq",
    "propositional_extensionality", "PropExtensionality.propositional_extensionality",
}
FORBIDDEN = re.compile(
    r"\b(Admitted|admit|Axiom|Axioms|Parameter|Parameters|Conjecture|Conjectures)\b|Admit Obligations"
    r"|Unset\s+Guard|Unset\s+Positivity|Unset\s+Universe|bypass_check|type-in-type|impredicative-set|native_compute")

def env_offline():
    e = dict(os.environ)
    e.update({"CARGO_NET_OFFLINE": "true", "CARGO_TARGET_DIR": TARGET})
    return e

def sh(cmd, cwd=None, timeout=None, env=None):
    p = subprocess.run(cmd, cwd=cwd, stdout=subprocess.PIPE, stderr=subprocess.STDOUT, text=True,
                       timeout=timeout, env=env, errors="replace")
    return p.returncode, p.stdout

def strip_comments(text):
    out, depth, i, instr = [], 0, 0, False
    while i < len(text):
        if not instr and text.startswith("(*", i):
            depth += 1; i += 2; continue
        if not instr and depth and text.startswith("*)", i):
            depth -= 1; i += 2; continue
        if depth == 0:
            if text[i] == '"': instr = not instr
            out.append(text[i])
        i += 1
    return "".join(out)

class Check:
    def __init__(self, spec):
        self.s = spec
        self.id = spec["id"]
        self.t0 = time.time()
        self.tier = os.environ.get("VERIF_TIER", "quick")
        self.seed = int(os.environ.get("VERIF_SEED", "1") or 1)
        self.violations = []     # (kind, detail, replay_path)
        self.known_seen = {}
        self.notes = []
        self.cov = {}
        self.log_dir = os.path.join(CACHE, "logs"); os.makedirs(self.log_dir, exist_ok=True)
        self.phases = {}; self._pt = time.time()
        os.makedirs(REPLAYS, exist_ok=True)

    def phase(self, name):
        now = time.time(); self.phases[name] = round(self.phases.get(name, 0) + now - self._pt, 1); self._pt = now

    # ---------- 1. translator ----------
    def gen_deps(self):
        """generated files (Gen/X.v) the property's Coq targets import, transitively"""
        seen, todo, gens = set(), [t[:-1] if t.endswith(".vo") else t for t in self.s["coq_targets"]], set()
        while todo:
            f = todo.pop()
            if f in seen: continue
            seen.add(f)
            path = os.path.join(COQ, f)
            if not os.path.exists(path): continue
            text = strip_comments(open(path).read())
            for m in re.finditer(r"(?:From\s+Sci\s+)?Require\s+(?:Import\s+|Export\s+)?(.*?)\.(?=\s)", text, re.S):
                for name in m.group(1).split():
                    parts = [x for x in name.split(".") if x != "Sci"]
                    if len(parts) < 2: continue
                    if parts[0] == "Gen": gens.add(parts[1] + ".v")
                    else: todo.append("theories/" + "/".join(parts) + ".v")
        self._closure = sorted(seen)
        return gens

    def gen(self):
        rc, out = sh([sys.executable, os.path.join(ROOT, "tools", "gen.py")])
        try:
            status = json.load(open(os.path.join(CACHE, "gen_status.json")))
        except Exception:
            self.proof_break("translator", "tools/gen.py: " + out.strip().replace("\n", "; ")); return False
        need = self.gen_deps()
        bad = []
        self.soft = []
        for mod, st in status.items():
            if st.get("soft") and set(st["files"]) & need:
                self.soft += [f"{mod}: {m}" for m in st["soft"]]
        if self.soft:
            self.cov["constructs_changed"] = self.soft
            for m in self.soft:
                print("NOTE translator construct no longer matches (soft): " + m)
        for mod, st in status.items():
            if st["missing"] and (set(st["files"]) & need or not st["files"] and self.s.get("gen_all")):
                bad += [f"{mod}: {m}" for m in st["missing"]]
        self.cov["generated_files_used"] = sorted(need)
        if bad:
            self.proof_break("translator", "tools/gen.py: " + "; ".join(bad)); return False
        return True

    # ---------- 2./3. theorems ----------
    def proofs(self):
        sh([os.path.join(COQ, "mkproject.sh")])
        targets = self.s["coq_targets"]
        rc, out = sh(["make", "-j16"] + targets, cwd=COQ, timeout=3000)
        open(os.path.join(self.log_dir, self.id + ".make.log"), "w").write(out)
        if rc != 0:
            m = re.search(r'File "([^"]+)", line (\d+)', out)
            where = f"{m.group(1)}:{m.group(2)}" if m else "see make log"
            self.proof_break("proof", f"make failed at {where}: " + out.strip()[-600:])
            return False
        # theorems of this property: re-run coqc on the Props file to capture Print Assumptions
        props = os.path.join(COQ, self.s["props"])
        text = strip_comments(open(props).read())
        thms = re.findall(r"^\s*Theorem\s+(\w+)", text, re.M)
        mine = [t for t in thms if self.s.get("theorem_filter") is None or re.search(self.s["theorem_filter"], t)]
        pdir = os.path.join(CACHE, "props_" + self.id); os.makedirs(pdir, exist_ok=True)
        rc, out = sh(["coqc"] + COQFLAGS + ["-o", os.path.join(pdir, os.path.basename(props) + "o"), props], cwd=COQ, timeout=1200)
        open(os.path.join(self.log_dir, self.id + ".props.log"), "w").write(out)
        if rc != 0:
            self.proof_break("proof", "coqc Props failed: " + out.strip()[-600:]); return False
        closed = len(re.findall(r"Closed under the global context", out))
        axioms = set()
        for blk in re.findall(r"Axioms:\n((?:.+\n?)+?)(?:\n|\Z)", out):
            for line in blk.splitlines():
                m = re.match(r"^(\S+)\s*:", line)
                if m: axioms.add(m.group(1))
        n_print = len(re.findall(r"Print Assumptions", text))
        bad = sorted(a for a in axioms if a not in AXIOM_ALLOW and a.split(".")[-1] not in AXIOM_ALLOW)
        if bad:
            self.proof_break("assumptions", "Print Assumptions reports axioms outside the allow-list: " + ", ".join(bad))
        if n_print < len(thms):
            self.proof_break("assumptions", f"{props}: {len(thms)} theorems but only {n_print} Print Assumptions")
        # forbidden tokens anywhere in the files the property's theorems depend on
        # (transitive Require closure of the targets; Gen files included)
        self.gen_deps()
        closure = [os.path.join(COQ, f) for f in self._closure if os.path.exists(os.path.join(COQ, f))]
        closure += [os.path.join(COQ, "theories", "Gen", g) for g in self.cov.get("generated_files_used", [])]
        self.cov["audited_files"] = len(closure)
        for f in closure:
            m = FORBIDDEN.search(strip_comments(open(f).read()))
            if m:
                self.proof_break("audit", f"forbidden token '{m.group(0)}' in {os.path.relpath(f, ROOT)}")
        self.cov["obligations"] = len(mine)
        self.cov["discharged"] = len(mine) if rc == 0 else 0
        self.cov["theorems"] = mine
        self.cov["axioms_reported"] = sorted(axioms)
        self.cov["closed_under_global_context"] = closed
        self.cov["checker_cmd"] = "make -C coq -j16 " + " ".join(targets) + " && coqc " + self.s["props"]
        if self.tier == "thorough" and self.s.get("coqchk", True):
            lib = "Sci." + self.s["props"].replace("theories/", "").replace("/", ".")[:-2]
            rc, out = sh(["coqchk", "-silent", "-o", "-Q", os.path.join(COQ, "theories"), "Sci", lib], cwd=COQ, timeout=3000)
            open(os.path.join(self.log_dir, self.id + ".coqchk.log"), "w").write(out)
            self.cov["coqchk"] = "ok" if rc == 0 else "FAILED"
            if rc != 0: self.proof_break("coqchk", out.strip()[-400:])
        return True

    def proof_break(self, kind, detail):
        self.violations.append(("broken:" + kind, detail, None))

    # ---------- 4. harness ----------
    def build_harness(self, bins, release=False):
        cmd = ["cargo", "build", "--offline", "--workspace"] + sum((["--bin", b] for b in bins), [])
        if release: cmd.append("--release")
        rc, out = sh(cmd, cwd=HARNESS, env=env_offline(), timeout=3000)
        open(os.path.join(self.log_dir, self.id + ".cargo.log"), "w").write(out)
        if rc != 0:
            self.proof_break("harness-build", "cargo build failed (the implementation no longer offers what the correspondence needs): " + out.strip()[-800:])
            return False
        return True

    def run_harness(self, binname, args, outdir, release=False, timeout=1800):
        os.makedirs(outdir, exist_ok=True)
        exe = os.path.join(TARGET, "release" if release else "debug", binname)
        e = env_offline(); e["VERIF_SEED"] = str(self.seed); e["VERIF_TIER"] = self.tier
        rc, out = sh([exe, "--out", outdir] + args, env=e, timeout=timeout)
        open(os.path.join(self.log_dir, self.id + "." + binname + ".log"), "w").write(out)
        if rc != 0:
            self.proof_break("harness-run", f"{binname} exited {rc}: " + out.strip()[-600:])
            return None
        try:
            return json.load(open(os.path.join(outdir, "summary.json")))
        except Exception as ex:
            self.proof_break("harness-run", f"{binname}: no summary ({ex})"); return None

    # ---------- 5. evaluate shards ----------
    def eval_shards(self, outdir, timeout=1500):
        shards = sorted(glob.glob(os.path.join(outdir, "cases_*.v")))
        def one(f):
            try:
                if self.s.get("shard_eval") == "coqtop":
                    # optional: evaluate without producing a .vo (same vernac, faster); default is coqc
                    rc, out = sh(["coqtop", "-q", "-batch"] + COQFLAGS + ["-l", f], timeout=timeout)
                else:
                    rc, out = sh(["coqc", "-noglob"] + COQFLAGS + ["-o", f[:-2] + ".vo", f], timeout=timeout)
            except subprocess.TimeoutExpired:
                return f, -9, "timeout"
            return f, rc, out
        verdicts = []
        with concurrent.futures.ThreadPoolExecutor(max_workers=16) as ex:
            for f, rc, out in ex.map(one, shards):
                if rc != 0:
                    self.proof_break("correspondence-eval", f"{os.path.basename(f)}: coqc failed: {out.strip()[-400:]}")
                    continue
                m = re.search(r"=\s*\[(.*?)\]\s*:\s*list N", out, re.S)
                vs = [int(x) for x in re.findall(r"\d+", m.group(1))] if m else None
                if vs is None:
                    self.proof_break("correspondence-eval", f"{os.path.basename(f)}: unparsable output"); continue
                verdicts.append((f, vs))
        flat = []
        for f, vs in verdicts: flat += vs
        return flat

    # ---------- 6. classify ----------
    def classify(self, verdicts, summary, binname, hargs, known_bits, what="correspondence"):
        """verdict bits: 1 = model/implementation disagree, 2 = property oracle fails on the
        implementation's output (unknown class), other bits = known-finding classes."""
        idx = summary.get("index", [])
        n_mis = n_viol = 0
        kf = load_known(self.id)
        for k, v in enumerate(verdicts):
            desc = idx[k] if k < len(idx) else ""
            if v & 2:
                n_viol += 1
                if n_viol <= 3:
                    self.violations.append(("property", desc, self.write_replay(binname, hargs, k, desc, v, "property oracle fails on the implementation's output")))
            for bit, cls in known_bits.items():
                if v & bit:
                    if cls in kf:
                        self.known_seen[cls] = self.known_seen.get(cls, 0) + 1
                    else:
                        n_viol += 1
                        if n_viol <= 3:
                            self.violations.append(("property", desc, self.write_replay(binname, hargs, k, desc, v, f"class {cls} is not a listed known finding")))
            if v & 1: n_mis += 1
        if n_mis and not any(x[0] == "property" for x in self.violations):
            # correspondence broke, search found no input on which the property itself fails
            k = next(i for i, v in enumerate(verdicts) if v & 1)
            desc = idx[k] if k < len(idx) else ""
            rp = self.write_replay(binname, hargs, k, desc, verdicts[k],
                                   f"{what}: model and implementation disagree on {n_mis} case(s); the property oracle holds on every implementation output explored",
                                   nofail=True)
            self.violations.append(("broken:correspondence", f"{n_mis} disagreeing cases, first: {desc}", rp))
        self.cov["corr_mismatches"] = self.cov.get("corr_mismatches", 0) + n_mis
        return n_mis, n_viol

    def write_replay(self, binname, hargs, k, desc, verdict, why, nofail=False):
        body = {"property": self.id, "why": why, "seed": self.seed, "tier": self.tier, "harness": binname,
                "harness_args": hargs, "case_index": k, "case": desc, "verdict_bits": verdict,
                "no_failing_input_found": nofail,
                "how": f"VERIF_SEED={self.seed} VERIF_TIER={self.tier} ./check {self.id} --replay <this file>"}
        h = hashlib.sha1(json.dumps(body, sort_keys=True).encode()).hexdigest()[:10]
        path = os.path.join(REPLAYS, f"{self.id}-{h}.json")
        json.dump(body, open(path, "w"), indent=1)
        return path

    # ---------- 7. finish ----------
    def finish(self, extra_cov=None, assumptions=None):
        cov = self.cov
        if extra_cov: cov.update(extra_cov)
        self.phase("finish"); cov["phase_wall_s"] = self.phases
        cov.setdefault("trusted_base", TRUSTED_BASE + self.s.get("trusted_extra", []))
        kf = load_known(self.id)
        for cls, what in kf.items():
            n = self.known_seen.get(cls, 0)
            print(f"KNOWN-FINDING: property={self.id} {cls}: {what} (reproduced on {n} case(s) this run)")
        nviol = 0
        for kind, detail, rp in self.violations:
            nviol += 1
            if rp is None:
                rp = self.write_replay("-", [], -1, detail, 0, kind, nofail=True)
            tail = "" if kind == "property" else " no-failing-input-found"
            print(f"DETAIL {kind}: {detail[:700]}")
            print(f"VIOLATION property={self.id} replay={rp}{tail}")
        # the search found a real failing input: drop the weaker 'no-failing-input-found' lines? keep all.
        ev = {"property_id": self.id, "tier": self.tier, "seed": self.seed, "level": "proof",
              "coverage": cov, "assumptions": assumptions or self.s.get("assumptions", []),
              "wall_s": round(time.time() - self.t0, 2), "violations": nviol}
        os.makedirs(os.path.join(ROOT, "evidence"), exist_ok=True)
        json.dump(ev, open(os.path.join(ROOT, "evidence", self.id + ".json"), "w"), indent=1)
        print(f"{self.id}: tier={self.tier} seed={self.seed} theorems={cov.get('discharged',0)}/{cov.get('obligations',0)} "
              f"cases={cov.get('evaluations',0)} mismatches={cov.get('corr_mismatches',0)} violations={nviol} wall={ev['wall_s']}s")
        sys.exit(1 if nviol else 0)

TRUSTED_BASE = [
    "Coq 8.16.1 kernel (vm_compute used for witnesses, finite sweeps and case evaluation; no native_compute)",
    "tools/gen.py translator (regular expressions over /repo sources; loud failure on a missing construct)",
    "hand-written Gallina model of the control flow, tied to /repo by the correspondence check (Rust harness under harness/, case files evaluated in Coq)",
    "Rust harness generators and canonicalisation; std::panic::catch_unwind",
]

def load_known(pid):
    p = os.path.join(ROOT, "known_findings", pid + ".json")
    if not os.path.exists(p): return {}
    out = {}
    for e in json.load(open(p)).get("findings", []):
        if e.get("property") == pid and e.get("status") == "open":
            out[e["class"]] = e["what"]
    return out

def standard_main(spec, argv):
    """generic flow used by most checks"""
    c = Check(spec)
    replay = None
    if "--tier" in argv: c.tier = argv[argv.index("--tier") + 1]
    if "--replay" in argv: replay = argv[argv.index("--replay") + 1]
    if replay:
        r = json.load(open(replay)); c.seed = r.get("seed", c.seed); c.tier = r.get("tier", c.tier)
    if c.gen(): c.proofs()
    c.phase("proofs")
    total = distinct = 0; samples = []; dist = {}
    for h in spec.get("harness", []):
        n = h["n"][c.tier]
        if getattr(c, "soft", None) and c.tier == "quick":
            n *= 3   # a mirrored statement changed shape: re-validate the model on more cases
        hargs = ["--n", str(n)] + h.get("args", [])
        ok = c.build_harness([h["bin"]], release=h.get("release", False)); c.phase("cargo")
        if not ok: continue
        outdir = os.path.join(CACHE, "cases", c.id + "-" + h["bin"])
        summ = c.run_harness(h["bin"], hargs, outdir, release=h.get("release", False))
        c.phase("harness")
        if summ is None: continue
        verdicts = c.eval_shards(outdir); c.phase("coq-eval")
        if len(verdicts) != summ["total"]:
            c.proof_break("correspondence-eval", f"{h['bin']}: {len(verdicts)} verdicts for {summ['total']} cases")
        c.classify(verdicts, summ, h["bin"], hargs, h.get("known_bits", {}))
        if replay:
            r = json.load(open(replay)); k = r.get("case_index", -1)
            if r.get("harness") == h["bin"] and 0 <= k < len(verdicts):
                print(f"REPLAY case {k}: verdict bits now = {verdicts[k]} (was {r.get('verdict_bits')}); case: {summ['index'][k]}")
        total += summ["total"]; distinct += summ["distinct"]; samples += summ["samples"][:3]
        for k, v in summ["dist"].items(): dist[h["bin"] + "." + k] = v
    c.finish({"evaluations": total, "distinct_nontrivial": distinct, "samples": samples or ["(no cases)"],
              "input_distribution": dist, "rule": spec.get("rule", "")})
